#!/bin/bash
# usage: seeded_run.sh <ID> <variant-dir-name> [check-id ...]  -- apply /verif/seeded/<ID>/<x>/patch.diff to /repo, run the quick check(s), undo.
set -u
ID=$1; X=$2; shift; shift
CHECKS=${@:-$ID}
D=/verif/seeded/$ID/$X
cd /repo || exit 2
if ! git diff --quiet; then echo "repo not clean"; exit 2; fi
git apply "$D/patch.diff" || { echo "patch does not apply"; exit 2; }
res=""
for C in $CHECKS; do
  out=$(cd /verif && ./check $C 2>&1)
  rc=$?
  sigs=$(echo "$out" | grep -E "^  signature:" | sed 's/^  signature: //' | sort | uniq -c | sort -rn | head -5 | tr '\n' ';')
  line=$(echo "$out" | grep -E "quick seed" | tail -1)
  echo "[$ID/$X] check $C rc=$rc $line"
  echo "      $sigs"
  res="$res{\"check\":\"$C\",\"exit\":$rc,\"signatures\":\"$(echo $sigs | sed 's/"/\\"/g' | cut -c1-600)\"},"
done
git -C /repo checkout -- . 
echo "{\"property\":\"$ID\",\"change\":\"$X\",\"results\":[${res%,}]}" > $D/result.json
