#!/bin/bash
# usage: smoke.sh PROP [tier] [extra args] -- run shard 0 of 8 directly and summarise
P=$1; T=${2:-quick}; shift; shift
rm -rf /tmp/o$P; ( time /verif/harness/target/release/vw $P --tier $T --seed 1 --shard 0 --nshards 8 --budget-ms 60000 --out /tmp/o$P "$@" ) 2>&1 | grep -E "real|panicked|overflow" ; python3 - <<PY
import json,collections
d=json.load(open('/tmp/o$P/w0.json'))
print({k:d[k] for k in ['evaluations','nontrivial','distinct_local','inconclusive']})
for k,v in d['subs'].items(): print('  ',k,v)
c=collections.Counter(v['sig'] for v in d['violations']); print(c)
seen=set()
for v in d['violations']:
    if v['sig'] in seen: continue
    seen.add(v['sig']); print(v['sig'],'|',v['detail'][:1200]); print()
cs=d['counters']
print({k:v for k,v in cs.items() if not k.startswith('jet.')})
print('jets:',len([k for k in cs if k.startswith('jet.')]))
PY
