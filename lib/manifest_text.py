HOOK_COMMITS = ["56827d5"]
NOTES = ("All checks are runtime monitors: the real library is driven by generated workloads and every result is judged online by an "
         "independent executable oracle (reference model, the vendored C implementation, or an invariant hook); sanitizers run as passive "
         "monitors under the same workloads. Verdicts are three-valued; exit 2 is a harness error, never a verdict. "
         "known_findings.json lists genuine defects (status known / fixed).")
NOT_APPLICABLE = {}
TEXT = {}
TEXT["C13"] = {
    "level": ("Exhaustive over small naturals, power-of-two neighbourhoods up to 2^63 (beyond the decodable range nothing may read back as another number), all short byte strings and all window ranges; sampled elsewhere. "
              "Every library result is compared with a from-the-specification bit-list model, so the check decides the property on each "
              "explored input; inputs outside the explored sets are not covered."),
    "design_ref": "DESIGN.md section 5, C13",
    "note": "trusts the harness bit-list model (harness/src/bits.rs) and rustc; stream truncation is byte-granular",
    "technique": "reference-model monitor (bit-list codec) over enumerated + random inputs",
}
TEXT["C10"] = {
    "level": ("Random and small-exhaustive exploration of (type, value, production history) triples; each library answer is compared with an abstract-value model "
              "whose layout is computed from the type definition, so every explored triple is decided. Reach: type grammar with nesting, unequal sums, words to 2^11 bits, "
              "buffers, ctx8; every bit offset mod 8."),
    "design_ref": "DESIGN.md section 5, C10",
    "note": "trusts the harness value model (harness/src/val.rs, ty.rs)",
    "technique": "reference-model monitor (abstract value layout) over generated types/values/histories",
}
TEXT["C11"] = {
    "level": ("All pairs of eight production histories per generated value, plus exhaustive tiny types: equality, hash and order are compared with model identity. "
              "A defect found this way was repaired (known_findings.json); the check passes only when the comparison traits ignore padding and stray bits."),
    "design_ref": "DESIGN.md section 5, C11",
    "note": "trusts the harness value model and std's DefaultHasher being deterministic",
    "technique": "reference-model monitor over history pairs incl. Bit Machine output after frame reuse",
}
TEXT["C18"] = {
    "level": ("Exhaustive enumeration of all DAG shapes up to 7 (8) nodes under three sharing policies, each compared with a naive recursive reference and with "
              "direct structural statements; random larger shapes on top, and real Redeem/Commit node DAGs from the program generator under the library's own trackers, through both the borrowed and the owned view, with all four iterators and is_shared_as against a recursive reference. Decides the property for the enumerated shapes."),
    "design_ref": "DESIGN.md section 5, C18",
    "note": "trusts the naive reference walker in harness/src/c18.rs",
    "technique": "reference-model monitor over an exhaustive shape enumeration through the public DagLike trait",
}
TEXT["C19"] = {
    "level": ("Exhaustive over deficits around every region edge for a family of boundary-straddling stacks, random elsewhere up to the consensus maximum; "
              "oracle is an independent compact-size budget calculator plus the library's own predicate on the padded stack."),
    "design_ref": "DESIGN.md section 5, C19",
    "note": "trusts the harness's compact-size arithmetic",
    "technique": "reference-model monitor (budget calculator) with boundary enumeration",
}
TEXT["C05"] = {
    "level": ("Tens of thousands (thorough: millions) of generated (program, input) pairs over arbitrary source/target types, each executed on the real Bit Machine and compared "
              "with an independent big-step evaluator, including placement variants that shift and dirty the frames; decides the property on each explored pair."),
    "design_ref": "DESIGN.md section 5, C05",
    "note": "trusts the harness evaluator, inference and jet models (harness/src/{eval,ast,mjets}.rs)",
    "technique": "reference-model monitor (big-step evaluator) + frame-bounds hook over type-directed generated programs",
}
TEXT["C04"] = {
    "level": ("Generated constraint graphs (ill-typed, cyclic, deeply shared, well-typed) under several construction orders, each compared with an independent unifier; decides acceptance, "
              "principality and order-independence on every explored DAG/order. Deep-recursion crashes are caught by process-death attribution."),
    "design_ref": "DESIGN.md section 5, C04",
    "note": "trusts the harness's reference inference (harness/src/ast.rs: Infer)",
    "technique": "reference-model monitor (independent first-order unifier) over generated DAGs x construction orders, with crash capture",
}
TEXT["C09"] = {
    "level": ("Every node kind and conversion path of tens of thousands of generated programs is compared with an independent from-scratch hasher; decides root stability on each explored "
              "program, witness assignment and hidden set. The text parser's and the policy compiler's ways of building nodes are included. Injectivity is monitored, not proved."),
    "design_ref": "DESIGN.md section 5, C09",
    "note": "trusts the harness SHA-256 and tag strings (harness/src/{sha,ast}.rs)",
    "technique": "reference-model monitor (from-scratch Merkle hasher) across node kinds and conversions",
}
TEXT["C01"] = {
    "level": ("Tens of thousands (thorough: millions) of generated programs with every node kind and sharing pattern are round-tripped at redemption and commitment time and compared node by node; "
              "the byte strings are additionally read by an independent bit-level parser, so an encoder and decoder that are wrong in the same way are still caught; commitment-time roots are compared with the redemption-time ones and witness nodes with different values must not share an identity root."),
    "design_ref": "DESIGN.md section 5, C01",
    "note": "trusts the harness's program parser (harness/src/enc.rs), inference and value model",
    "technique": "round-trip monitor with an independent bit-level parser as reference model",
}
TEXT["C02"] = {
    "level": ("Totality is observed, not proved: every decoder call runs under panic capture, a counting allocator, process-death attribution and a watchdog (wall-clock time itself is telemetry); "
              "canonicity is checked by re-encoding every accepted input and by positive controls that violate one rule each. Covers the explored strings only; depth-related crashes are listed findings."),
    "design_ref": "DESIGN.md section 5, C02",
    "note": "trusts the harness encoder/parser for the hand-assembled inputs; stack size pinned to 8 MiB so that recursion findings are keyed on depth",
    "technique": "totality monitors (panic/abort/hang/allocation) + re-encode oracle over random, mutated and hand-assembled encodings",
}
TEXT["C07"] = {
    "level": ("The machine's real resource use is observed through the off-by-default hook on every run of generated nesting-heavy programs (successful and failing), in an assertion-enabled and a plain "
              "release build, and the hard-limit refusal is checked on enumerated programs whose true bounds straddle the limits (including bounds that overflow machine integers, and wide source/target types whose sum with the extra cells crosses the limit)."),
    "design_ref": "DESIGN.md section 5, C07",
    "note": "trusts the hook (src/bit_machine: verif_stats / verif_take_frame_oob) and the u128 bound re-computation in harness/src/c07.rs",
    "technique": "invariant hook (high-water marks, frame-bounds counter) + allocation monitor over nesting-biased programs and limit bombs, two build profiles",
}
TEXT["C12"] = {
    "level": ("Every public route for attaching witnesses is driven with right- and wrong-typed candidates of seven kinds on executed and unexecuted branches; whatever the API returns is inspected "
              "(types, own serialisation, execution under the frame-bounds hook, pruning). Decides the property for each explored (program, assignment, route)."),
    "design_ref": "DESIGN.md section 5, C12",
    "note": "trusts the harness value model and the hook counters",
    "technique": "API-boundary monitor with wrong-type witness injection + frame-bounds hook",
}
TEXT["C03"] = {
    "level": ("Differential monitoring against the vendored C reference on generated, mutated and random byte pairs; every pair is decided (agree / disagree / C-side limit). "
              "Thousands of both-accept cases per quick run carry the root and cost comparison; agreement on rejection alone is not counted as sufficient (counter floor); witnesses of every bit length 0..1100 (thorough ..4200) are included."),
    "design_ref": "DESIGN.md section 5, C03",
    "note": "trusts libsimplicity (C) as the specification and the simplicity-sys test bindings used to reach it (C14 monitors those bindings)",
    "technique": "differential monitor against the vendored C implementation over generated/mutated/random encodings",
}
TEXT["C06"] = {
    "level": ("Differential monitoring of the two evaluators on every Elements jet (each executed on both sides in every run) and on generated programs in generated environments; "
              "decides verdict agreement on each explored (program, witness, environment)."),
    "design_ref": "DESIGN.md section 5, C06",
    "note": "trusts libsimplicity's evaluator as the reference for jets; the harness declares evalTCOExpression itself from eval.h",
    "technique": "differential monitor Rust Bit Machine vs C evaluator over all jets and generated programs/environments",
}
TEXT["C08"] = {
    "level": ("Every successful run of a generated program is followed by prune and a battery of observations (root, re-run, idempotence, re-decode, C anti-DoS acceptance, C roots); "
              "a defect in pruning under shared nodes was found this way and repaired. Decides the property on each explored (program, witness, environment)."),
    "design_ref": "DESIGN.md section 5, C08",
    "note": "trusts libsimplicity's anti-DoS checks (CHECK_ALL) as the consensus rule",
    "technique": "behavioural monitor around prune with the C evaluator's anti-DoS check as oracle",
}
TEXT["C14"] = {
    "level": ("Exhaustive over the finite jet tables and the finite set of extern declarations; each jet is additionally executed through both the Rust binding and the C evaluator on sampled inputs; "
              "the FFI boundary is observed with gdb at the first real call of every declared function. Decides table/code/type/cost agreement completely, binding wiring on the sampled inputs."),
    "design_ref": "DESIGN.md section 5, C14",
    "note": "trusts libsimplicity's tables and the DWARF of the C objects built by simplicity-sys's build script with CFLAGS=-g",
    "technique": "exhaustive table monitors + differential jet execution + gdb FFI-boundary tracer",
}
TEXT["C15"] = {
    "level": ("Thousands of generated transaction environments, each read back through every environment jet at in-range and out-of-range indices and compared with an independent extractor over the harness's own transaction model; "
              "decides the field jets on each explored environment; aggregate digests are only checked for build-independence and the sighash identity."),
    "design_ref": "DESIGN.md section 5, C15",
    "note": "trusts the harness transaction model (harness/src/txgen.rs), its SHA-256 and the documented jet encodings",
    "technique": "reference-model monitor (field extractor) over generated transaction environments, plus memory sanitizers on the marshalling path",
}
TEXT["C16"] = {
    "level": ("All two-level policies over a 9-leaf alphabet under every availability pattern, plus thousands of generated deeper policies under four patterns each, decided against a truth-table model, "
              "the Bit Machine and the C evaluator; sorting compared with a model canonical form and across random child reorderings."),
    "design_ref": "DESIGN.md section 5, C16",
    "note": "trusts the harness policy model (harness/src/c16.rs: truth, canon) and the transaction model for lock height / distance",
    "technique": "reference-model monitor (policy truth table, canonical form) over generated policies, environments and availability patterns; differential against the C evaluator",
}
TEXT["C17"] = {
    "level": ("Thousands of generated commit programs and generated source texts pushed through render + parse with CMR, node list, types and encoding compared; "
              "the repository's command-line tool driven as a subprocess (disassemble / assemble / relabel); tens of thousands of arbitrary, token-soup, mutated and deeply nested strings through the parser with panics, process deaths and hangs monitored."),
    "design_ref": "DESIGN.md section 5, C17",
    "note": "trusts the harness program generator and its CMR model (ast.rs)",
    "technique": "round-trip monitor over generated programs and source texts; crash / panic / hang monitor over arbitrary and deeply nested strings",
}
TEXT["C20"] = {
    "level": ("Thousands of rounds in which up to 16 threads repeat every library operation on shared and private objects and each result is compared with the one-at-a-time result; fresh child processes whose first library calls happen on 16 threads at once are compared with a process that ran them one at a time; "
              "repeated under ThreadSanitizer and AddressSanitizer with the C code instrumented; decides only the interleavings the scheduler produced (overlap counts in the evidence)."),
    "design_ref": "DESIGN.md section 5, C20",
    "note": "race detection is limited to memory accesses ThreadSanitizer instruments (Rust std rebuilt with -Zbuild-std, C compiled with -fsanitize=thread)",
    "technique": "differential monitor (concurrent vs sequential results) over a multi-threaded stress workload with an overlap event log; ThreadSanitizer and AddressSanitizer passes",
}
