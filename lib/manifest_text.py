HOOK_COMMITS = ["56827d5"]
NOTES = ("All checks are runtime monitors: the real library is driven by generated workloads and every result is judged online by an "
         "independent executable oracle (reference model, the vendored C implementation, or an invariant hook); sanitizers run as passive "
         "monitors under the same workloads. Verdicts are three-valued; exit 2 is a harness error, never a verdict. "
         "known_findings.json lists genuine defects (status known / fixed).")
NOT_APPLICABLE = {}
TEXT = {}
TEXT["C13"] = {
    "level": ("Exhaustive over small naturals, power-of-two neighbourhoods, all short byte strings and all window ranges; sampled elsewhere. "
              "Every library result is compared with a from-the-specification bit-list model, so the check decides the property on each "
              "explored input; inputs outside the explored sets are not covered."),
    "design_ref": "DESIGN.md section 5, C13",
    "note": "trusts the harness bit-list model (harness/src/bits.rs) and rustc; stream truncation is byte-granular",
    "technique": "reference-model monitor (bit-list codec) over enumerated + random inputs",
}
