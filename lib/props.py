"""Per-property configuration of the driver: budgets, evidence floors, rule texts, passes."""

SETUP_VARIANTS = ["verif"]

COMMON_ASSUMPTIONS = [
    "exploration only: the verdict covers the executions listed in coverage, nothing else",
    "the harness's reference models (vcore) are trusted; a disagreement that the library wins would be a harness error",
    "x86_64 Linux, rustc 1.95 release build with debug-assertions and overflow-checks enabled (variant `verif`) unless a pass says otherwise",
]

CONFIG = {}

CONFIG["C13"] = {
    "budget_s": {"quick": 60, "thorough": 900},
    "floor": {"quick": 5000, "thorough": 100000},
    "rule": ("cases are (a) blocks of naturals: all n in [1,2^16] (thorough 2^22), all n within 64 of every 2^k (k<=31), random magnitudes; each n is "
             "encoded, compared bit-for-bit with the specification code, decoded at a random bit offset with random trailing bits into "
             "u8/u16/u32/u64/usize/i32, with bounds {n-1,n,n+1,0,1,max,random} and every byte-truncation; (b) every 1- and 2-byte string "
             "(thorough: 3-byte) and random 3..9-byte strings decoded and compared with the reference decoder incl. uniqueness of the code; "
             "(c) random interleavings of write_bit/write_bits_be/io::Write/flush_all/encode_natural mirrored into a bit list, read back by random "
             "interleavings of next/read_bit/read_u2/read_u8/read_cmr/read_fail_entropy/read_natural, then close(); (d) every (start,end) window of "
             "slices of <=5 (thorough 9) bytes; (e) collect_bits/try_collect_bytes. A case is non-trivial when the library call sequence "
             "completed and was compared with the model; distinct = distinct (block | op-sequence | window) identities."),
    "exhaustive_claim": "naturals 1..2^16 (quick) / 2^22 (thorough), +-64 around every power of two up to 2^31, all 1-2 (3) byte strings, all window ranges of slices up to 5 (9) bytes",
    "assumptions": COMMON_ASSUMPTIONS + ["byte streams are whole bytes: a 'truncated' stream is one cut at a byte boundary"],
}
