"""Per-property configuration of the driver: budgets, evidence floors, rule texts, passes."""

SETUP_VARIANTS = ["verif", "rel", "gdb", "tsan", "asan"]

COMMON_ASSUMPTIONS = [
    "exploration only: the verdict covers the executions listed in coverage, nothing else",
    "the harness's reference models (vcore) are trusted; a disagreement that the library wins would be a harness error",
    "x86_64 Linux, rustc 1.95 release build with debug-assertions and overflow-checks enabled (variant `verif`) unless a pass says otherwise",
]

CONFIG = {}

CONFIG["C13"] = {
    "budget_s": {"quick": 150, "thorough": 420},
    "floor": {"quick": 5000, "thorough": 15000},
    "rule": ("cases are (a) blocks of naturals: all n in [1,2^16] (thorough 2^22), all n within 64 of every 2^k (k<=31), random magnitudes; each n is "
             "encoded, compared bit-for-bit with the specification code, decoded at a random bit offset with random trailing bits into "
             "u8/u16/u32/u64/usize/i32, with bounds {n-1,n,n+1,0,1,max,random} and every byte-truncation; (b) every 1- and 2-byte string "
             "(thorough: 3-byte) and random 3..9-byte strings decoded and compared with the reference decoder incl. uniqueness of the code; "
             "(c) random interleavings of write_bit/write_bits_be/io::Write/flush_all/encode_natural mirrored into a bit list, read back by random "
             "interleavings of next/read_bit/read_u2/read_u8/read_cmr/read_fail_entropy/read_natural, then close(); (d) every (start,end) window of "
             "slices of <=5 (thorough 9) bytes; (e) collect_bits/try_collect_bytes. A case is non-trivial when the library call sequence "
             "completed and was compared with the model; distinct = distinct (block | op-sequence | window) identities."),
    "exhaustive_claim": "naturals 1..2^16 (quick) / 2^22 (thorough), +-64 around every power of two up to 2^31, all 1-2 (3) byte strings, all window ranges of slices up to 5 (9) bytes",
    "assumptions": COMMON_ASSUMPTIONS + ["byte streams are whole bytes: a 'truncated' stream is one cut at a byte boundary"],
}

CONFIG["C10"] = {
    "budget_s": {"quick": 225, "thorough": 420},
    "floor": {"quick": 20000, "thorough": 60000},
    "rule": ("a case is a random finalized type (grammar 1 | A+B | A*B | 2^(2^n) | option | buffer8 | ctx8, three size classes), a random (or all-left / all-right) "
             "abstract value of it and one of seven production histories (constructor tree, integer constructors, from_compact_bits, from_padded_bits with "
             "ones/random bits in every padding position, sub-value extraction through as_left/as_right/as_product from a larger value, extraction from a "
             "decoded all-ones buffer, prune from a larger type). The library value is compared with the model: type, compact bits exactly, padded bits on all "
             "non-padding positions, lengths, bits consumed when re-decoding both encodings (with trailing junk), accessors on the value and after re-wrapping "
             "it with left/right/product, to_word, and prune to equal / smaller (one and two steps) / path-incompatible / larger targets against the model projection. "
             "'offsets-enumerated' places the value behind prefixes of 0..=8 bits under three histories. 'tiny-types-exhaustive' enumerates every type with "
             "<=3 (thorough 4) constructors, every value and every history. Non-trivial: type width > 0; distinct: distinct (value,type,history) renderings."),
    "exhaustive_claim": "all types with at most 3 (thorough: 4) sum/product constructors x all their values x all 7 histories; bit offsets 0..8 per sampled value",
    "assumptions": COMMON_ASSUMPTIONS + ["Value::== is never used as an oracle here; values are read through iter_compact/iter_padded and their Final"],
}

CONFIG["C11"] = {
    "budget_s": {"quick": 225, "thorough": 420},
    "floor": {"quick": 5000, "thorough": 15000},
    "rule": ("a case is a random type and abstract value realised through all eight histories (the seven of C10 plus Bit Machine output of a scribe program run "
             "after a frame filled with ones/0xAA/random bits was released, so sum padding of the output is dirty); all pairs (and each with itself) must be ==, "
             "hash equally (DefaultHasher) and cmp Equal, as Value and, for word types, as Word; a different value of the same type realised through all histories "
             "must be != with an antisymmetric, history-independent order; a random triple must sort into a chain; the same bits at type 1*T must differ. "
             "'tiny-types-exhaustive' does this for every type with <=3 (thorough 4) constructors and all of its values. Non-trivial: width > 0."),
    "exhaustive_claim": "all types with at most 3 (thorough: 4) constructors x all value pairs x all 8x8 history pairs",
    "assumptions": COMMON_ASSUMPTIONS + ["each history is first checked to denote the intended abstract value (through compact/padded bits), so a failure here is a failure of the comparison traits"],
    "counter_floors": {"quick": {"history.machine-output-dirty-frame": 1000}},
}

CONFIG["C18"] = {
    "budget_s": {"quick": 225, "thorough": 420},
    "floor": {"quick": 5000, "thorough": 15000},
    "rule": ("cases are blocks of 512 DAG shapes: every assignment of children (none | one earlier node | ordered pair of earlier nodes, possibly the same twice) "
             "to n <= 7 (thorough 8) nodes, kept when every node is reachable from the root, plus random 8..40-node shapes; each shape is iterated through a harness "
             "type implementing the public DagLike trait under NoSharing, InternalSharing and a structural (unfolded-subtree) tracker: post_order_iter, "
             "rtl_post_order_iter, pre_order_iter, verbose_pre_order_iter(max_depth in {None,0,1,2,3}) and is_shared_as are compared item-for-item with a naive "
             "recursive walker, and the post-order items are also checked directly (consecutive indices, children before parents, child indices point at the child's class). "
             "Non-trivial: block contains at least one fully reachable shape; distinct: distinct blocks / shapes."),
    "exhaustive_claim": "all DAG shapes with at most 7 (thorough: 8) nodes in which every node is reachable from the root, x 3 sharing trackers x 5 iterators",
    "assumptions": COMMON_ASSUMPTIONS + ["identity-hash sharing is represented by a harness tracker whose class is the hash of the unfolded subtree; real CommitNode/RedeemNode DAGs under MaxSharing are exercised by C01/C02"],
    "counter_floors": {"quick": {"shapes": 100000}},
}

CONFIG["C19"] = {
    "budget_s": {"quick": 150, "thorough": 420},
    "floor": {"quick": 2000, "thorough": 6000},
    "rule": ("a case is a witness stack (empty; single item straddling 252/253 and 65535/65536; 251..254 and 65534..65536 tiny items; mixed; typical spend; random) "
             "checked against every deficit in [-3,300] u [65500,65560] x remainders {-999,-1,0,1,500,999} (exhaustive sub-check), against random costs up to the "
             "consensus maximum, and cost<->weight conversions over runs of 40 consecutive costs near 0, near the consensus maximum and near u32::MAX. "
             "Oracle: budget = compact-size serialised length + 50 recomputed by the harness; validity, annex format, sufficiency (model and the library's own predicate "
             "after appending the annex), fix-point, and minimality unless the item count is 252 or 65535. Distinct: distinct stacks / cost runs."),
    "exhaustive_claim": "every deficit in [-3,300] and [65500,65560] x 6 remainders for each generated stack",
    "assumptions": COMMON_ASSUMPTIONS + ["compact-size rule: 1 byte <= 252, 3 bytes <= 65535, 5 bytes <= 2^32-1"],
    "counter_floors": {"quick": {"minimality-checked": 42537}},
}

CONFIG["C05"] = {
    "budget_s": {"quick": 300, "thorough": 420},
    "floor": {"quick": 8000, "thorough": 24000},
    "rule": ("a case is a random source type A and target type B (type grammar of C10), a type-directed random program A -> B over all combinators "
             "(iden unit injl injr take drop comp case assertl assertr pair disconnect witness fail word) and the Core jets that have a harness reference function, "
             "with pointer-shared and structurally duplicated sub-expressions, principal types from the harness's own inference (root pinned to A -> B), witness "
             "values projected to the principal types and realised through mixed value histories; three inputs (random, all-left, all-right), each realised through a random "
             "history; the plain program plus up to three placement variants (output shifted by 1..7 bits, input shifted by 1..7 bits, frames re-used after being filled with ones). "
             "Oracle: big-step evaluator on abstract values; verdict kinds must match (value / assertion with the hidden CMR / fail entropy / jet failure); hooks: no frame access "
             "outside its frame, high-water marks within bounds. Non-trivial: >= 4 distinct nodes executed and B has non-zero width. Distinct: distinct (types, program) renderings."),
    "assumptions": COMMON_ASSUMPTIONS + ["jet semantics for the modelled Core jets are re-implemented from the C reference's documented behaviour (harness/src/mjets.rs); all other jets are out of C05's scope and covered by C06/C14"],
    "counter_floors": {"quick": {"executed.case": 1000, "executed.disconnect": 500, "variant.shift-input": 2000, "variant.dirty-frames": 2000, "verdict.assert": 100, "verdict.jet-failed": 100},
                       "thorough": {"executed.case": 50000, "executed.disconnect": 20000}},
}

CONFIG["C04"] = {
    "hang_is_violation": True,
    "budget_s": {"quick": 300, "thorough": 420},
    "floor": {"quick": 11305, "thorough": 33915},
    "rule": ("a case is a combinator DAG: (i) arbitrary bottom-up random DAGs of 2..40 (thorough 200) nodes over all combinators, words, fail, witness, disconnect with and without branch and "
             "Core/Elements jets as typed leaves, (ii) type-directed well-typed programs, one third of them with one node mutated, (iii) occurs-check seeds, sharing towers and chains by depth, "
             "(iv) two deep well-typed families at depths 100..160000. Every node reachable from the root is constructed exactly once, in the natural order and in 3 (thorough 11) further random "
             "topological orders, each in a fresh context, then finalised (as program or not). Oracle: work-list unification + occurs check + defaulting of free variables to unit; "
             "acceptance must agree, every visited node's arrow must equal the model's principal solution and satisfy its combinator's typing rule, all orders must agree, errors must display in < 1 MiB, no panic. "
             "Non-trivial: >= 3 nodes; distinct: distinct DAG renderings."),
    "assumptions": COMMON_ASSUMPTIONS + ["nodes that a commitment-time finalisation does not visit (right branches of disconnect) contribute constraints but are not occurs-checked, mirroring what finalisation walks"],
    "counter_floors": {"quick": {"model.occurs": 200, "model.well-typed": 5000, "model.clash": 5000}},
}

CONFIG["C09"] = {
    "budget_s": {"quick": 225, "thorough": 420},
    "floor": {"quick": 8000, "thorough": 24000},
    "rule": ("a case is a type-directed random 1->1 program (no jets / Core jets / Elements jets; sharing and structural duplicates; witnesses, assertions with random or real hidden roots, "
             "disconnect, fail, words). The from-scratch tagged-SHA256 commitment root of every node (harness SHA-256, IVs derived from the tag strings) is compared with cmr() of: every ConstructNode, "
             "every node built through the Hiding wrapper with a random sixth of the sub-expressions hidden, the CommitNode and each of its nodes, unfinalize_types, the NamedCommitNode `main`, "
             "RedeemNodes under two witness assignments and (where an expression of the same arrow exists) another disconnected branch, RedeemNode::unfinalize, to_construct_node, and the pruned program. "
             "A per-worker map root -> one-level committed structure (children by root) reports two structures with one root. Word constants 2^1..2^512 separately. "
             "Non-trivial: >= 4 nodes; distinct: distinct program renderings."),
    "assumptions": COMMON_ASSUMPTIONS + ["jet roots are taken from the jet tables (C14 compares those with C); Policy::cmr / the CMR-only compiler is not public API and is covered in C16"],
    "counter_floors": {"quick": {"variant.hiding": 10000, "variant.redeem": 15000, "variant.pruned": 5000}},
}

CONFIG["C01"] = {
    "budget_s": {"quick": 300, "thorough": 420},
    "floor": {"quick": 20000, "thorough": 60000},
    "rule": ("a case is a type-directed random 1->1 program (no jets / Core / Elements; pointer-shared and structurally duplicated sub-expressions incl. duplicated witness nodes with equal values; "
             "assertions with random and real hidden roots, some shared; disconnect with branch; fail; words; witnesses of every type shape projected to the principal types and realised through mixed "
             "value histories). Redemption time: finalize_unpruned -> to_vec_with_witness -> RedeemNode::decode; node lists under MaxSharing must agree position by position on CMR, source/target TMR, "
             "IHR, AMR and witness value (semantic comparison), and re-encoding must reproduce both byte strings. Independently, the program bytes are parsed by the harness's bit-level parser: the list "
             "must unfold to the generated expression (structure hash incl. disconnected branches), type-check in the reference inference, and the witness stream read with the reference types must "
             "hold exactly the program's witness values in order with only zero padding after. Commitment time: finalize_types -> to_vec_without_witness -> CommitNode::decode with the same comparisons "
             "(IHR/AMR where defined), witness/disconnect-containing sub-expressions occurring once. Non-trivial: >= 5 nodes; distinct: distinct program renderings."),
    "assumptions": COMMON_ASSUMPTIONS + ["jet bit codes are taken from the jet tables (C14)", "Bitcoin jets excluded (roots unimplemented by design)"],
    "counter_floors": {"quick": {"witness-values": 20000, "has-hidden": 500, "has-disconnect": 2000, "sharing-merged-nodes": 10000}},
}

CONFIG["C02"] = {
    "budget_s": {"quick": 300, "thorough": 420},
    "hang_is_violation": True,
    "floor": {"quick": 20000, "thorough": 60000},
    "rule": ("a case is a (program bytes, witness bytes) pair offered to RedeemNode::decode, CommitNode::decode and ConstructNode::decode with the Core or the Elements jet family: "
             "(a) random strings (length skewed to 1..64 bytes, two thirds with a small node count spliced in as length prefix), (b) 1-2 byte-level mutations (bit flip, truncate, extend, swap, "
             "overwrite, insert, delete) of the library's own encodings of generated programs, (c) encodings hand-assembled with the harness's bit-level encoder to violate exactly one rule: "
             "unused node, swapped sibling order, unshared duplicate expression, repeated hidden node, hidden node outside case, both children hidden, trailing zero byte, non-zero padding bit, "
             "word length 33, natural >= 2^31, back-reference past the start, witness stream one byte long/short, (d) deep well-typed chains / pair towers of depth 10^2..10^6. "
             "Oracle: outcome is Ok or Err (panics, aborts and hangs are captured); peak live heap (counting global allocator) <= 64 MiB + 8 KiB per input byte; time <= 2 s + 50 us * len^2 (re-run before believed); "
             "error Display < 1 MiB; an accepted input must be readable by the reference parser and re-encode byte-for-byte (commit time: when no disconnect carries a branch); every class-(c) input must be rejected. "
             "Non-trivial: every case that reached a decoder; distinct: distinct byte strings."),
    "assumptions": COMMON_ASSUMPTIONS + ["the 64 MiB constant covers the documented 32 MiB initial reservation of Value::from_padded_bits", "strings up to a few hundred bytes plus depth-stress encodings up to ~2 MiB; Bitcoin family excluded (panics by design)", "stack size pinned to 8 MiB"],
    "counter_floors": {"quick": {"accept.Redeem": 300, "reject.sharing-not-maximal": 100, "reject.not-canonical-order": 100, "reject.illegal-padding": 100, "reject.trailing-bytes": 100},
                       "thorough": {"accept.Redeem": 10000}},
}

CONFIG["C07"] = {
    "budget_s": {"quick": 300, "thorough": 420},
    "floor": {"quick": 8598, "thorough": 25794},
    "passes": [{"variant": "verif"}, {"variant": "rel"}],
    "rule": ("(1) type-directed programs biased towards deep comp/disconnect nesting (fuel up to 40, thorough 120), case branches of unequal size, Core jets, witnesses, and programs over wide types "
             "(up to ~1500 bits, words to 2^9): each is run on three inputs (all-left, all-right, random) through BitMachine::for_program/input/exec; the verif-hooks readings are judged after every run, "
             "failing ones included: high-water of live cells <= |A|+|B|+extra_cells and <= buffer size, high-water of read+write frames <= extra_frames+2, zero frame accesses outside their frame, no panic. "
             "(2) 34 enumerated 'bombs' (pair towers 2^10..2^70 behind one, two and three comps, wide pair/take, comp chains of 10^3 and around 2^20 frames): the true bound is re-computed in u128; "
             "for_program must refuse exactly when it exceeds the hard limits, and refuse without allocating more than 1 MiB. Both passes: release with debug assertions/overflow checks (`verif`) and plain release (`rel`). "
             "Slack histograms are telemetry. Non-trivial: >= 5 nodes; distinct: distinct program renderings / bomb names."),
    "exhaustive_claim": "the 34 listed bomb programs",
    "assumptions": COMMON_ASSUMPTIONS + ["the cost bound is not compared with a measured cost here (C03 compares it with C)", "a BitMachine is used for exactly one exec"],
    "counter_floors": {"quick": {"run.ok": 20000, "run.failed": 2000, "bomb.refused": 20}},
}

CONFIG["C12"] = {
    "budget_s": {"quick": 300, "thorough": 420},
    "floor": {"quick": 15000, "thorough": 45000},
    "rule": ("a case is a type-directed 1->1 program with Core jets and at least one witness node (case nodes put some on unexecuted branches), and for every witness slot a candidate value: "
             "of the inferred type, too wide (extra component / grown type), too narrow (pruned), unit, same width but another shape, one tag and one padding bit wider, or of a random type. "
             "Routes: ConstructNode::witness(Some(v)) + finalize_unpruned / finalize_pruned(CoreEnv); Forest::from_program + to_witness_node(map) + finalize_unpruned / finalize_pruned; RedeemNode::decode of valid "
             "program bytes with the original or random witness bytes. Oracle: the route returns Err, or a RedeemNode in which every witness is_of_type its node's target (structurally re-checked), whose own "
             "serialisation decodes and re-encodes identically, whose execution has zero out-of-frame accesses and stays within bounds (hooks), and whose prune does not panic and stays well-typed; all-correct "
             "witnesses must be accepted. No panic anywhere. Non-trivial: every case with >= 1 witness node; distinct: distinct (program, candidates) renderings."),
    "assumptions": COMMON_ASSUMPTIONS + ["the value-list finaliser (SimpleFinalizer), documented as unchecked, is not driven with wrong types"],
    "counter_floors": {"quick": {"candidate.TooWide": 3000, "candidate.TooNarrow": 3000, "candidate.SameWidthOtherShape": 3000, "construct+finalize_unpruned.ok": 3000, "witness-map+finalize_unpruned.ok": 3000}},
}

CONFIG["C03"] = {
    "budget_s": {"quick": 300, "thorough": 420},
    "floor": {"quick": 30000, "thorough": 90000},
    "rule": ("a case is a (program bytes, witness bytes) pair: (1) the library's own redemption-time encoding of a type-directed random 1->1 Elements program (all 471 jets may appear as leaves; witnesses of "
             "every type shape; assertions; disconnect; fail; words; sharing), (2) the same with 1-2 byte-level mutations, (3) random strings. Rust: RedeemNode::decode::<Elements>; C: decodeMallocDag, "
             "mallocTypeInference, fillWitnessData, computeAnnotatedMerkleRoot, verifyNoDuplicateIdentityHashes, analyseBounds (unbounded), 1->1 check, called through simplicity-sys. Oracle: both accept or both "
             "reject, except C's FailCode when the program contains a fail node, and C-only Malloc/ExecMemory/ExecBudget/size refusals (inconclusive); when both accept, CMR, AMR, IHR and the cost bound are bit-identical. "
             "Non-trivial: every compared pair; distinct: distinct byte pairs."),
    "assumptions": COMMON_ASSUMPTIONS + ["libsimplicity as vendored in simplicity-sys/depend is the reference", "pruned programs are compared with C in C08"],
    "counter_floors": {"quick": {"both-accept": 5000, "both-reject": 20000, "fail-node-exception": 500}},
}

CONFIG["C06"] = {
    "budget_s": {"quick": 300, "thorough": 420},
    "floor": {"quick": 8000, "thorough": 24000},
    "rule": ("(1) every one of the 471 Elements jets wrapped as comp (comp witness[v] jet) unit, 6 (thorough 60) rounds each, v a plausible input of the jet's source type (small and out-of-range indices for 2^32, "
             "valid curve x-coordinates for 2^256 components, valid BIP-340 triples for bip_0340_verify, all-left/all-right/random otherwise) in a freshly generated transaction environment; "
             "(2) type-directed random 1->1 Elements programs without fail nodes (all jets as leaves, witnesses, assertions, disconnect, sharing) in generated environments. Both are run on the Rust Bit Machine "
             "(BitMachine::exec with the ElementsEnv) and, after serialisation, on the C evaluator (decodeMallocDag, mallocTypeInference, fillWitnessData, evalTCOExpression(CHECK_NONE, minCost 0, no budget, the same "
             "CTxEnv) through a binding declared by the harness with the nine-parameter C prototype). Oracle: Ok <-> NoError, ReachedPrunedBranch <-> ExecAssert, JetFailed <-> ExecJet; C-side memory/budget limits are inconclusive. "
             "Non-trivial: every compared pair (programs: >= 5 nodes); distinct: distinct (program/jet+input, environment) renderings."),
    "exhaustive_claim": "all 471 Elements jets are executed on both evaluators in every run (inputs and environments are sampled)",
    "assumptions": COMMON_ASSUMPTIONS + ["agreement is on verdict and failure kind, not on intermediate machine state"],
    "counter_floors": {"quick": {"agree.Ok": 5000, "agree.Jet": 1000, "agree.Assert": 100}},
}

CONFIG["C08"] = {
    "budget_s": {"quick": 375, "thorough": 420},
    "floor": {"quick": 6000, "thorough": 18000},
    "rule": ("a case is a type-directed 1->1 program biased to sharing (25% pointer reuse, so the same case node is reached under several comp contexts with different choices), with witnesses of sum/product types, "
             "disconnect, assertions, occasionally fail, without jets or with Elements jets, and a generated Elements environment. If the run succeeds: prune must succeed, keep the CMR, run successfully within bounds "
             "(hooks), keep every witness well-typed, be idempotent (same IHR and bytes when pruned again), serialise to bytes that RedeemNode::decode reads back identically and that the C implementation accepts with "
             "CHECK_ALL (every node executed, both branches of every case taken) in the same environment, with C's CMR/AMR/IHR/cost equal to Rust's; finalize_pruned from the construct node must give the same IHR. "
             "If the run fails: prune fails with the same kind of error. Non-trivial: the program contains at least one case node; distinct: distinct (program, environment) renderings."),
    "assumptions": COMMON_ASSUMPTIONS + ["environments in which the run fails are only checked for clean failure"],
    "counter_floors": {"quick": {"run-ok": 20000, "pruned.has-assertions": 3000, "run-failed.prune-failed-same-kind": 1000}},
}

CONFIG["C14"] = {
    "budget_s": {"quick": 300, "thorough": 420},
    "floor": {"quick": 5000, "thorough": 15000},
    "post_steps": [{"name": "ffi_boundary", "jet_reps": 1}],
    "rule": ("(1) for all 368 Core, 471 Elements and 428 Bitcoin jets: decode(encode(j)) == j consuming exactly the code at two alignments with junk behind, byte-aligned strict prefixes give EndOfStream, "
             "the sorted code list is prefix-free, every bit string of <= 12 bits that is neither a code, a prefix nor an extension of one gives InvalidJet, the display name parses back, type names expand to types of the "
             "stated width and TMR; every Core jet has the types of its Elements namesake and the same code behind the family bit 0. (2) for all 471 Elements jets the one-node expression is run through C decodeMallocDag / "
             "mallocTypeInference / analyseBounds and C's CMR, source/target TMR and width, node cost and cost bound are compared with the Rust table. (3) every Elements and Core jet is executed 8 (thorough 100) times on plausible "
             "inputs in generated environments through BitMachine::exec (Rust wrapper -> rustsimplicity_0_7_c_<name>) and through the C evaluator's own jet table (evalTCOExpression with input/output buffers, harness binding); outputs "
             "(decoded at the target type) and failure verdicts must agree and no frame access may leave its frame. (4) programs are evaluated through simplicity-sys's own run_program/evalTCOProgram binding and through the harness's "
             "nine-parameter binding; verdicts must agree and the process must not abort. (5) under gdb, every extern declaration of simplicity-sys is compared with the debug info of the linked C function (arity, pointer/integer class, size) "
             "and the first real call of each function is observed (pointer formals must be NULL or readable). Non-trivial: every case; distinct: distinct jets / (jet, repetition) pairs."),
    "exhaustive_claim": "all 368+471+428 jet table entries (monitor 1), all 471 Elements jets against C (monitor 2), all 497 extern declarations against debug info (monitor 5); inputs of monitor 3 are sampled",
    "assumptions": COMMON_ASSUMPTIONS + ["return-type differences that are ABI-compatible on x86-64 are observed but not judged", "Bitcoin family: codes, names and type names only (roots, costs and bindings are unimplemented in this revision)"],
    "counter_floors": {"quick": {"exec.both-ok": 5000, "table.Core": 368, "table.Elements": 471, "table.Bitcoin": 428, "namesakes": 368}},
}

CONFIG["C15"] = {
    "budget_s": {"quick": 300, "thorough": 420},
    "floor": {"quick": 476, "thorough": 1428},
    "rule": ("a case is a generated Elements transaction environment (1..5 inputs, 0..5 outputs; per input independently: pegin or not, new issuance / reissuance / none with explicit, confidential or null amounts and keys, "
             "range proofs of 0 or 65..300 bytes, script_sig 0..100 bytes, witness stack of 0..4 items with no annex / an annex of 0..80 bytes / the 1-byte annex [0x50], explicit or confidential spent asset and value; outputs with explicit or confidential "
             "asset and value, null / explicit / confidential nonce, empty, OP_RETURN, taproot-like and random scripts, surjection and range proofs; lock time in blocks / seconds / at the boundary; sequences with and without the final value; "
             "control block with 0..8, rarely up to 128, path elements). For every environment-reading Elements jet with no input or an index input, and every index in {0,1,n-1,n,n+1,m-1,m,m+1,2^32-1, lock time +-1} (path: {0,1,k-1,k,k+1,255}), the one-jet program is run "
             "through BitMachine::exec: (a) an environment built a second time from the same data must give identical outputs for all jets (aggregate digests included); (b) for 56 field jets the output must equal the field of the supplied data in the jet's "
             "documented encoding (absent value for out-of-range indices; null amounts read as explicit 0; proofs hashed only for confidential values); every current_X equals input_X(ix); check_lock_* fail exactly when the index exceeds the lock; "
             "(c) the sig_all_hash jet equals CTxEnv::sighash_all(). Non-trivial: every environment; distinct: distinct transactions."),
    "assumptions": COMMON_ASSUMPTIONS + ["aggregate digest jets (inputs_hash, tx_hash, tap_env_hash, ...) are not re-implemented: covered by the two-build consistency check, the sighash identity and C14/C06",
                                         "output assets and values are never null here (no documented reading); the annex is the last witness item when it starts with 0x50, hashed without the tag byte, as the environment builder documents"],
    "counter_floors": {"quick": {"reference-checked": 100000, "sighash-compared": 476}},
}

CONFIG["C16"] = {
    "budget_s": {"quick": 375, "thorough": 420},
    "floor": {"quick": 6000, "thorough": 18000},
    "rule": ("a case is a policy over 4 key pairs and 4 hash preimages drawn per case, with after(n) and older(n) leaves placed at, just below and just above the lock height / lock distance the jets read from the case's generated transaction "
             "(lock time 0, small, 499999999, >= 500000000 or random; sequences final, 0xfffffffe, block-based, time-based, disabled or random; version 1, 2, 3 or 2^32-1), trivial and unsatisfiable leaves, and and/or/threshold (1..6 children, 0 <= k <= n) "
             "nodes to depth 5 and 40 nodes. Sub `small-policies-all-availability` enumerates 7 two-level shapes x 9^3 leaf triples and all 8 availability patterns of the keys and the preimage they mention; sub `generated-policies` samples trees "
             "and, per tree, 4 availability patterns (all, none, 2 random). Per pattern the satisfier returns signatures over the environment's sighash for the available keys, preimages for the available hashes and the jets' own answer for the locks. "
             "Monitors: Policy::cmr() = commit().cmr() = cmr of every satisfied program; satisfy returns a program iff the model evaluates the policy true (and: both, or: either, threshold: at least k) and Unsatisfiable otherwise; "
             "the returned program runs successfully in the environment within its declared bounds, all its witnesses are well typed, no fail node survives, and the C evaluator accepts it with all anti-DoS checks and computes the same CMR; "
             "sorted() is idempotent, is a reordering of the policy (model canonical forms equal), and equals sorted() of three random reorderings of the commutative children at every depth. "
             "Non-trivial: policies with at least one connective; distinct: distinct (policy, transaction) renderings."),
    "assumptions": COMMON_ASSUMPTIONS + ["lock truth is what the check_lock_height and broken_do_not_use_check_lock_distance jets compare against (validated against the jets in C15)",
                                         "signatures are BIP-340 signatures over CTxEnv::sighash_all() of an environment whose script CMR is the policy's CMR"],
    "counter_floors": {"quick": {"satisfy.true-satisfied": 15000, "satisfy.false-refused": 15000, "sort.permutations-compared": 10000, "leaf.after.true": 300, "leaf.after.false": 300, "leaf.older.true": 300, "leaf.older.false": 300}},
}

CONFIG["C17"] = {
    "needs_simpcli": True,
    "budget_s": {"quick": 500, "thorough": 420},
    "floor": {"quick": 57993, "thorough": 173979},
    "hang_is_violation": True,
    "rule": ("sub `program-roundtrip`: a case is a generated well-typed commit program (no jets / Core / Elements; witnesses, commit-time assertions, disconnect, fail, words, pointer-shared and structurally duplicated sub-expressions), "
             "rendered with Forest::from_program + string_serialize and parsed back: the text must parse to the single root `main` with the same CMR, the same node list (combinator, child positions, CMR, source and target type roots, in maximal-sharing post order) and the same bit encoding. "
             "sub `source-roundtrip`: a case is a source text written by the harness for such a program (sub-expressions named or inline, parenthesised or not, aliases, lines shuffled, comments, type ascriptions with `_` parts, separate type declaration lines, `#{}` CMR expressions, CMR literals, holes); "
             "if it parses to one root, its CMR must be the CMR the harness computes for the written program and render + parse must reproduce roots, node lists and encodings. "
             "sub `arbitrary-strings`: random bytes as UTF-8, token soup over the lexer's alphabet and mutated valid sources: parse must return Ok or a non-empty error list, never panic; anything that parses to one root also goes through render + parse. "
             "sub `simpcli-roundtrip`: the repository's command-line tool built from the working tree and run as a subprocess: `disassemble <base64>` then `assemble` (and `relabel` then `assemble`) must print the base64 it was given. "
             "sub `fixed-texts`: one source text per defect class met so far (CMR literals, holes, option types, fail, equal named expressions, generated-name collisions, alias chains, types fixed by a #{} expression). "
             "sub `nesting`: 8 nesting shapes (parentheses, unary chains, type parentheses, long sums, comp chains, nested #{}, unclosed parentheses, long chains of named definitions) x depths 10..30000 (thorough: ..100000; named chains 10..20000, thorough ..100000), including 511/512/513 around the parser's nesting limit. "
             "Scope of the generators: no witness or disconnect node is reachable along two paths (neither the bit encoding nor the text format can express that: the encoder writes the node twice, the parser refuses it by rule) and disconnect nodes have holes "
             "(a committed program does not contain the disconnected branch, so its types must not depend on one); a case node and an assertion hiding the same branch never coexist (two nodes with one identity root; C rejects that as unshared). "
             "Non-trivial: programs with at least 3 nodes / strings of any kind; distinct: distinct texts."),
    "assumptions": COMMON_ASSUMPTIONS + ["a generated source text that the parser refuses is outside the property and is counted as inconclusive; a floor keeps the accepted share high"],
    "counter_floors": {"quick": {"render.second-text-equal": 18118, "string.error-list": 47567, "string.parsed-single-root": 2184, "program.has-assertion": 120, "program.has-disconnect": 577, "source.feature.cmr-expression": 295, "source.feature.alias": 8467, "simpcli.roundtrips": 81}},
}

SAN_ENV_TSAN = {"TSAN_OPTIONS": "halt_on_error=1 exitcode=66 report_signal_unsafe=0 second_deadlock_stack=1"}
SAN_ENV_ASAN = {"ASAN_OPTIONS": "halt_on_error=1 abort_on_error=1 detect_leaks=1 allocator_may_return_null=1", "LSAN_OPTIONS": "exitcode=23"}

CONFIG["C20"] = {
    "budget_s": {"quick": 375, "thorough": 420},
    "floor": {"quick": 283, "thorough": 849},
    "hang_is_violation": True,
    "passes": [
        {"variant": "verif", "params": {"rounds": 800, "cold": 160}, "tiers": ["quick"]},
        {"variant": "verif", "tiers": ["thorough"]},
        {"variant": "tsan", "params": {"rounds": 64, "cold": 32}, "env": SAN_ENV_TSAN, "tiers": ["quick"]},
        {"variant": "tsan", "params": {"rounds": 12000, "cold": 2000}, "env": SAN_ENV_TSAN, "tiers": ["thorough"]},
        {"variant": "asan", "params": {"rounds": 24, "cold": 16}, "env": SAN_ENV_ASAN, "tiers": ["quick"]},
        {"variant": "asan", "params": {"rounds": 12000, "cold": 1000}, "env": SAN_ENV_ASAN, "tiers": ["thorough"]},
    ],
    "rule": ("sub `cold-start-processes`: a fresh child process (same binary, same sanitizer) in which the very first jet executions, C pipeline runs and prunings happen on 16 threads released together; the one-at-a-time results are computed afterwards in the same process and compared. "
             "sub `mixed-rounds`: a case is a round: a pool of 3..7 generated Elements programs (bytes, witness, a transaction, and the RedeemNode / CommitNode built by the main thread), 1..3 policies with an availability pattern, 2 source texts (one broken) and 2 types with values; "
             "every operation is first run one at a time on the main thread (twice: it must repeat), then 2, 3, 4, 8 or 16 threads released together each run every (item, operation) 2..5 times in their own random order with random yields. "
             "Operations: decode from bytes; decode + exec in an own environment (C jets); exec of the SHARED RedeemNode on an own machine; prune of the SHARED RedeemNode; type inference of the program in a fresh context; two nested contexts finalised in the opposite order; "
             "commit decode + string_serialize + parse; clone / iterate / drop of the SHARED nodes; the C pipeline (decode, type inference, analyses, evaluation through simplicity-sys); policy cmr / commit, satisfy + exec, sorted; Forest::parse; "
             "Final built on this thread == the SHARED Final built on the main thread (thread-local precomputed tables), Value built here == SHARED Value, padded round trip against the shared type. "
             "Monitor: every concurrent result string equals the sequential one; no panic on any thread; no worker death or hang (driver watchdog). An event log of global sequence numbers at operation start/end shows how many operations overlapped on the same item and on the same shared object. "
             "Passes: release with debug assertions; ThreadSanitizer (Rust std rebuilt, C built with -fsanitize=thread) and AddressSanitizer (+LeakSanitizer, C instrumented) on the same workload, where any report kills the worker and is attributed to the round. "
             "Non-trivial: rounds in which at least two operations on the same item overlapped on different threads; distinct: distinct rounds."),
    "assumptions": COMMON_ASSUMPTIONS + ["each thread owns its inference contexts, machines and environments, as the property states; inference contexts themselves are not shared between threads",
                                         "deadlock is observed through the driver's watchdog (3x budget + 120 s): a hang is reported as a violation for this property because its statement excludes deadlock",
                                         "interleavings are whatever the OS scheduler produces under 8 workers x up to 16 threads on 16 cores plus random yields; the evidence lists overlap counts, not a schedule enumeration"],
    "counter_floors": {"quick": {"overlaps.same-shared-object": 7956, "ops.concurrent": 436170, "cold.operations-compared": 15974}},
}


# ---------------------------------------------------------------- passive monitors added to existing checks
MIRI_ENV = {"MIRIFLAGS": "-Zmiri-disable-isolation"}

def _add_passes(prop, extra):
    cfg = CONFIG[prop]
    cfg["passes"] = list(cfg.get("passes", [{"variant": "verif"}])) + extra

# AddressSanitizer + LeakSanitizer with the C library instrumented, on a pseudo-random subset of every sub-check
for _p, _q, _t in [("C03", 2, 25), ("C05", 6, 25), ("C06", 3, 25), ("C08", 6, 25), ("C14", 5, 40), ("C15", 6, 25), ("C16", 2, 25), ("C12", 2, 25), ("C07", 4, 15)]:
    _add_passes(_p, [
        {"variant": "asan", "params": {"scale_pct": _q}, "env": SAN_ENV_ASAN, "tiers": ["quick"], "budget_s": {"quick": 60, "thorough": 420}},
        {"variant": "asan", "params": {"scale_pct": _t}, "env": SAN_ENV_ASAN, "tiers": ["thorough"], "budget_s": {"quick": 300, "thorough": 240}},
    ])

# Miri (pure-Rust paths only: these checks never call into C), thorough tier
for _p, _s in [("C04", 1), ("C10", 1), ("C11", 1), ("C13", 1), ("C18", 1), ("C01", 1), ("C02", 1)]:
    _add_passes(_p, [
        {"variant": "miri", "params": {"scale_pct": _s, "nojets": 1, "skip_subs": "depth-stress+nat-small-exhaustive+nat-decode-all+special-shapes+values-large+values-medium+offsets-enumerated+buffer-ctx8+history-pairs-medium+nat-random+nat-decode-random+all-shapes-7+all-shapes-8+random-larger-shapes+library-nodes+mutated-valid-encodings+random-bytes+random-dags"}, "env": MIRI_ENV, "tiers": ["thorough"], "budget_s": {"quick": 300, "thorough": 420}, "jobs": {"quick": 8, "thorough": 16}},
    ])
