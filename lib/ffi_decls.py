#!/usr/bin/env python3
"""Extract every foreign function declared in simplicity-sys (extern "C" blocks) with its parameter types.
Prints JSON: [{"rust_name", "link_name", "file", "params": [{"name","type","class","size"}], "ret"}]"""
import json, os, re, sys

ROOT = sys.argv[1] if len(sys.argv) > 1 else "/repo/simplicity-sys/src"

ALIASES = {}


def load_aliases():
    for dp, _, fns in os.walk(ROOT):
        for fn in fns:
            if fn.endswith(".rs"):
                src = open(os.path.join(dp, fn)).read()
                # only unconditional or linux/x86_64-selected aliases matter here; later definitions under
                # #[cfg(not(any(target_os = "macos", ...)))] are the ones used on this platform
                for m in re.finditer(r'((?:#\[cfg\([^\]]*\)\]\s*)*)pub type (\w+)\s*=\s*([^;]+);', src):
                    cfg, name, ty = m.group(1), m.group(2), m.group(3).strip()
                    if "fn(" in ty:
                        ALIASES[name] = "fnptr"
                        continue
                    if cfg and "not(" not in cfg and ("macos" in cfg or "windows" in cfg or "wasm32" in cfg):
                        continue
                    if cfg and 'not(target_pointer_width = "64")' in cfg:
                        continue
                    ALIASES[name] = ty


PRIM = {"bool": ("int", 1), "u8": ("int", 1), "i8": ("int", 1), "u16": ("int", 2), "i16": ("int", 2), "u32": ("int", 4), "i32": ("int", 4),
        "u64": ("int", 8), "i64": ("int", 8), "usize": ("int", 8), "isize": ("int", 8), "c_void": ("void", 0)}


def classify(ty):
    ty = ty.strip()
    if ty.startswith("*") or ty.startswith("&") or ty.startswith("Option<&") or ty == "fnptr" or ty.startswith("unsafe extern") or ty.startswith("extern"):
        return ("ptr", 8)
    base = ty.split("::")[-1]
    seen = set()
    while base in ALIASES and base not in seen:
        seen.add(base)
        nxt = ALIASES[base]
        if nxt == "fnptr":
            return ("ptr", 8)
        base = nxt.split("::")[-1].strip()
        if base.startswith("*") or base.startswith("&"):
            return ("ptr", 8)
    if base in PRIM:
        return PRIM[base]
    return ("aggregate", None)


def split_args(s):
    out, depth, cur = [], 0, ""
    for ch in s:
        if ch in "<([":
            depth += 1
        elif ch in ">)]":
            depth -= 1
        if ch == "," and depth == 0:
            out.append(cur)
            cur = ""
        else:
            cur += ch
    if cur.strip():
        out.append(cur)
    return [a.strip() for a in out if a.strip()]


def extern_blocks(src):
    for m in re.finditer(r'extern\s+"C"\s*\{', src):
        i = m.end()
        depth = 1
        while i < len(src) and depth:
            if src[i] == "{":
                depth += 1
            elif src[i] == "}":
                depth -= 1
            i += 1
        yield src[m.end():i - 1]


def main():
    load_aliases()
    decls = []
    for dp, _, fns in os.walk(ROOT):
        for fn in sorted(fns):
            if not fn.endswith(".rs"):
                continue
            path = os.path.join(dp, fn)
            src = open(path).read()
            src = re.sub(r'//[^\n]*', '', src)
            for block in extern_blocks(src):
                for m in re.finditer(r'((?:#\[[^\]]*\]\s*)*)pub(?:\([a-z]+\))?\s+fn\s+(\w+)\s*\((.*?)\)\s*(?:->\s*([^;]+?))?\s*;', block, re.S):
                    attrs, name, args, ret = m.group(1), m.group(2), m.group(3), m.group(4)
                    ln = re.search(r'link_name\s*=\s*"([^"]+)"', attrs)
                    params = []
                    for a in split_args(args):
                        if ":" in a:
                            pn, pt = a.split(":", 1)
                        else:
                            pn, pt = "_", a
                        cls, size = classify(pt)
                        params.append({"name": pn.strip(), "type": " ".join(pt.split()), "class": cls, "size": size})
                    decls.append({"rust_name": name, "link_name": ln.group(1) if ln else name, "file": os.path.relpath(path, ROOT),
                                  "params": params, "ret": " ".join(ret.split()) if ret else None})
    json.dump(decls, sys.stdout, indent=0)


if __name__ == "__main__":
    main()
