#!/usr/bin/env python3
"""Regenerate the seeded-break table in DESIGN.md from /verif/seeded/*/*/{meta,result}.json."""
import json, glob, os, re
rows = []
for d in sorted(glob.glob('/verif/seeded/*/*/')):
    mp, rp = os.path.join(d, 'meta.json'), os.path.join(d, 'result.json')
    if not os.path.exists(mp):
        continue
    m = json.load(open(mp))
    r = json.load(open(rp)) if os.path.exists(rp) else {"results": []}
    pid, x = d.rstrip('/').split('/')[-2:]
    files = m.get('files') or []
    if isinstance(files, str):
        files = [files]
    title = (m.get('title') or '').replace('|', '/')
    need = (m.get('needs_to_manifest') or '')
    if isinstance(need, list):
        need = '; '.join(map(str, need))
    need = re.sub(r'\s+', ' ', str(need)).replace('|', '/')[:220]
    res = []
    for c in r.get('results', []):
        sig = c.get('signatures', '')
        sigs = [re.sub(r'^\s*\d+\s+', '', s).strip() for s in sig.split(';') if s.strip()]
        res.append("%s: %s" % (c['check'], ('caught (' + ', '.join('`%s`' % s[:60] for s in sigs[:3]) + ')') if c['exit'] == 1 else ('MISSED' if c['exit'] == 0 else 'harness error %s' % c['exit'])))
    note = ''
    np_ = os.path.join(d, 'note.txt')
    if os.path.exists(np_):
        note = ' — ' + open(np_).read().strip().replace('\n', ' ')
    rows.append("| %s/%s | %s (`%s`) | %s | %s%s |" % (pid, x, title, ', '.join(os.path.basename(f) for f in files)[:60], need, '; '.join(res) or 'not run', note))
table = "| change | what | needs | quick check result |\n|---|---|---|---|\n" + "\n".join(rows) + "\n"
p = '/verif/DESIGN.md'
s = open(p).read()
a, b = '<!-- SEEDED-TABLE-BEGIN -->', '<!-- SEEDED-TABLE-END -->'
i, j = s.find(a), s.find(b)
assert i >= 0 and j > i
s = s[:i + len(a)] + "\n" + table + s[j:]
open(p, 'w').write(s)
print("%d rows" % len(rows))
