#!/usr/bin/env python3
"""Regenerate MANIFEST.json from lib/props.py and lib/manifest_text.py (keeps it valid at all times)."""
import json, os, sys
ROOT = os.path.dirname(os.path.dirname(os.path.abspath(__file__)))
sys.path.insert(0, os.path.join(ROOT, "lib"))
import props, manifest_text as mt

all_ids = [json.loads(l)["id"] for l in open(os.path.join(ROOT, "properties.jsonl"))]
checks = []
for pid in all_ids:
    if pid not in props.CONFIG or pid not in mt.TEXT:
        continue
    t = mt.TEXT[pid]
    checks.append({
        "property_id": pid,
        "quick_cmd": "./check %s --tier quick" % pid,
        "thorough_cmd": "./check %s --tier thorough" % pid,
        "evidence_file": "evidence/%s.json" % pid,
        "replay_cmd_template": "./check %s --replay {path}" % pid,
        "engine": "vw",
        "level_claimed": {"category": "exploration", "text": t["level"], "design_ref": t["design_ref"]},
        "level_note": t["note"],
        "technique": t["technique"],
    })
claimed = {c["property_id"] for c in checks}
na = [{"property_id": pid, "reason": mt.NOT_APPLICABLE.get(pid, "check not built yet in this round; the design (DESIGN.md section 5) addresses it with runtime monitoring")}
      for pid in all_ids if pid not in claimed]
m = {
    "version": 1,
    "setup_cmd": "./check --setup",
    "hooks": {
        "guard": "cargo feature `verif-hooks` of simplicity-lang (off by default)",
        "enable": "the harness crate /verif/harness depends on /repo by path with features [\"test-utils\",\"human_encoding\",\"elements\",\"verif-hooks\"]; every check rebuilds it with cargo from /repo's working tree",
        "baseline_off_cmd": "cd /repo && cargo test --workspace --no-fail-fast --offline",
        "source_commits": mt.HOOK_COMMITS,
        "add_only": True,
    },
    "engines": [{"name": "vw", "path": "harness/", "serves_properties": sorted(claimed),
                 "kind_free_text": "Rust worker binary (reference-model monitors, invariant hooks, crash/panic capture) driven by the python driver ./check; sanitizer variants (ASan+C, TSan, Miri, valgrind) of the same binary where a pass says so"}],
    "checks": checks,
    "not_applicable": na,
    "notes": mt.NOTES,
}
json.dump(m, open(os.path.join(ROOT, "MANIFEST.json"), "w"), indent=1)
print("MANIFEST.json: %d checks, %d not claimed" % (len(checks), len(na)))
