# gdb Python script: FFI-boundary tracer for C14.
#   FFI_DECLS = JSON from lib/ffi_decls.py (what the Rust side declares)
#   FFI_OUT   = where to write the observations
# For every declared foreign function: (a) the C function's formal parameters are read from the debug info
# of the code that is actually linked into the worker (count, pointer/integer class, size) and compared with
# the Rust declaration; (b) a temporary breakpoint observes the first real call: every pointer-class formal must
# hold NULL or a readable address (a shifted or missing argument shows up as a wild value).
import gdb, json, os

decls = json.load(open(os.environ["FFI_DECLS"]))
out_path = os.environ["FFI_OUT"]
gdb.execute("set pagination off")
gdb.execute("set confirm off")
gdb.execute("set breakpoint pending off")

INTLIKE = (gdb.TYPE_CODE_INT, gdb.TYPE_CODE_BOOL, gdb.TYPE_CODE_ENUM, gdb.TYPE_CODE_CHAR)


def cclass(t):
    t = t.strip_typedefs()
    if t.code == gdb.TYPE_CODE_PTR:
        return ("ptr", t.sizeof)
    if t.code in INTLIKE:
        return ("int", t.sizeof)
    if t.code == gdb.TYPE_CODE_VOID:
        return ("void", 0)
    return ("aggregate", t.sizeof)


results = {}
bps = []


class FBreak(gdb.Breakpoint):
    def __init__(self, name, nparams):
        super().__init__(name, gdb.BP_BREAKPOINT, internal=True)
        self.fname = name
        self.silent = True

    def stop(self):
        r = results[self.fname]
        try:
            frame = gdb.selected_frame()
            block = frame.block()
            args = []
            while block is not None and block.function is None:
                block = block.superblock
            wild = []
            if block is not None:
                for sym in block:
                    if sym.is_argument:
                        try:
                            v = sym.value(frame)
                            cls = cclass(sym.type)
                            if cls[0] == "ptr":
                                addr = int(v)
                                ok = True
                                if addr != 0:
                                    try:
                                        gdb.selected_inferior().read_memory(addr, 1)
                                    except Exception:
                                        ok = False
                                args.append({"name": sym.name, "ptr": hex(addr), "readable": ok})
                                if not ok:
                                    wild.append(sym.name)
                            else:
                                args.append({"name": sym.name, "value": str(v)})
                        except Exception as e:
                            args.append({"name": sym.name, "unavailable": str(e)[:60]})
            r["called"] = True
            r["first_call_args"] = args
            if wild:
                r["wild_pointers"] = wild
        except Exception as e:
            r["trace_error"] = str(e)[:200]
        self.enabled = False
        return False


for d in decls:
    name = d["link_name"]
    r = {"rust_params": [(p["class"], p["size"]) for p in d["params"]], "file": d["file"], "called": False}
    results[name] = r
    sym = gdb.lookup_global_symbol(name)
    if sym is None:
        try:
            sym = gdb.lookup_static_symbol(name)
        except Exception:
            sym = None
    if sym is None or sym.type.strip_typedefs().code != gdb.TYPE_CODE_FUNC:
        r["status"] = "no-c-symbol"
        continue
    ftype = sym.type.strip_typedefs()
    cparams = [cclass(f.type) for f in ftype.fields()]
    r["c_params"] = cparams
    r["c_return"] = cclass(ftype.target())
    problems = []
    if len(cparams) != len(d["params"]):
        problems.append("arity: Rust declares %d parameters, C function takes %d" % (len(d["params"]), len(cparams)))
    for i, (rp, cp) in enumerate(zip(d["params"], cparams)):
        if rp["class"] == "aggregate" or cp[0] == "aggregate":
            if rp["class"] != cp[0]:
                problems.append("parameter %d: Rust %s vs C %s" % (i, rp["type"], cp))
            continue
        if rp["class"] != cp[0]:
            problems.append("parameter %d (%s): Rust passes a %s, C expects a %s" % (i, rp["name"], rp["class"], cp[0]))
        elif rp["size"] is not None and rp["size"] != cp[1]:
            problems.append("parameter %d (%s): Rust type %s is %d bytes, C formal is %d bytes" % (i, rp["name"], rp["type"], rp["size"], cp[1]))
    r["status"] = "mismatch" if problems else "match"
    r["problems"] = problems
    try:
        bps.append(FBreak(name, len(cparams)))
    except Exception as e:
        r["breakpoint_error"] = str(e)[:100]

try:
    gdb.execute("run")
except Exception as e:
    results["__run_error__"] = {"status": "run-error", "error": str(e)[:300]}

try:
    code = gdb.parse_and_eval("$_exitcode")
    results["__exit__"] = {"status": "exit", "code": int(code) if code.type.code == gdb.TYPE_CODE_INT else None}
except Exception:
    results["__exit__"] = {"status": "exit", "code": None}

with open(out_path, "w") as f:
    json.dump(results, f, indent=0)
