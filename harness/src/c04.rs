//! C04 — type inference is sound, principal and order-independent. Oracle: M-infer.

use crate::ast::{self, Dag, Op, Unsat};
use crate::gen::{self, Family, GenParams};
use crate::prog;
use crate::rng::{hash_str, Rng};
use crate::runner::{guard, violated, Case, Ctx, Outcome, Plan};
use crate::ty::{self, TyParams, T};
use simplicity::dag::{DagLike, InternalSharing};
use simplicity::types::Context;
use std::time::Instant;

#[derive(Debug)]
enum LibResult {
    /// per AST node (commit-visible ones): arrow
    Ok(Vec<Option<(T, T)>>),
    /// constructor of AST node `at` failed
    CtorErr { at: usize, msg_len: usize, variant: String },
    /// finalisation failed
    FinalizeErr { msg_len: usize, variant: String },
}

fn error_variant(e: &simplicity::types::Error) -> String {
    match e {
        simplicity::types::Error::Bind { .. } => "Bind".into(),
        simplicity::types::Error::CompleteTypeMismatch { .. } => "CompleteTypeMismatch".into(),
        simplicity::types::Error::OccursCheck { .. } => "OccursCheck".into(),
        simplicity::types::Error::InferenceContextMismatch => "InferenceContextMismatch".into(),
        _ => "other".into(),
    }
}

const MAX_DISPLAY: usize = 1 << 20;

/// `to_string()` that gives up after `MAX_DISPLAY` bytes, so that an unbounded error text is observed
/// (as its length reaching the cap) without the harness paying for all of it.
fn display_capped(e: &dyn std::fmt::Display) -> String {
    struct Capped(String);
    impl std::fmt::Write for Capped {
        fn write_str(&mut self, s: &str) -> std::fmt::Result {
            if self.0.len() + s.len() > MAX_DISPLAY + 4096 {
                return Err(std::fmt::Error);
            }
            self.0.push_str(s);
            Ok(())
        }
    }
    let mut c = Capped(String::new());
    let _ = std::fmt::write(&mut c, format_args!("{}", e));
    c.0
}

fn run_lib(dag: &Dag, order: &[usize], program: bool, visible: &[bool], post: &[usize]) -> Result<LibResult, String> {
    Context::with_context(|ctx| {
        let wits = vec![None; dag.witness.len()];
        let t0 = Instant::now();
        let inst = match ast::instantiate(dag, &ctx, order, &wits) {
            Ok(i) => i,
            Err(e) => {
                let s = display_capped(&e.err);
                if s.len() > MAX_DISPLAY {
                    return Err(format!("error display of {} bytes", s.len()));
                }
                return Ok(LibResult::CtorErr { at: e.at, msg_len: s.len(), variant: error_variant(&e.err) });
            }
        };
        let root = inst.nodes[dag.root()].clone().unwrap();
        let fin = if program { root.finalize_types() } else { root.finalize_types_non_program() };
        let _ = t0;
        match fin {
            Ok(commit) => {
                let mut arrows: Vec<Option<(T, T)>> = vec![None; dag.len()];
                let items: Vec<_> = commit.as_ref().post_order_iter::<InternalSharing>().collect();
                if items.len() != post.len() {
                    return Err(format!("commit DAG has {} nodes under pointer sharing, the AST walk has {}", items.len(), post.len()));
                }
                for (it, ai) in items.iter().zip(post.iter()) {
                    arrows[*ai] = Some((ty::from_final(&it.node.arrow().source), ty::from_final(&it.node.arrow().target)));
                }
                let _ = visible;
                Ok(LibResult::Ok(arrows))
            }
            Err(e) => {
                let s = display_capped(&e);
                if s.len() > MAX_DISPLAY {
                    return Err(format!("error display of {} bytes", s.len()));
                }
                Ok(LibResult::FinalizeErr { msg_len: s.len(), variant: error_variant(&e) })
            }
        }
    })
}

pub fn check_dag(dag: &Dag, program: bool, k_orders: usize, rng: &mut Rng, case: &Case) -> Outcome {
    // which nodes does a commitment-time finalisation visit?
    let post = prog::ast_post_order_mode(dag, true);
    let mut visible = vec![false; dag.len()];
    for i in &post {
        visible[*i] = true;
    }
    // the finalisation walk runs over the construction-time DAG, which still holds attached disconnect branches:
    // their arrows are finalised (and occurs-checked) too, although the commit node that comes out drops them
    let mut walked = vec![false; dag.len()];
    for i in prog::ast_post_order_mode(dag, false) {
        walked[i] = true;
    }
    let model = ast::infer_masked2(dag, program, None, Some(&walked), Some(&visible));
    case.count(match &model {
        Ok(_) => "model.well-typed",
        Err(Unsat::Clash { .. }) => "model.clash",
        Err(Unsat::Occurs) => "model.occurs",
    });
    let mut first: Option<String> = None;
    for k in 0..k_orders {
        let order = if k == 0 { ast::natural_order(dag) } else { ast::random_topo_order(dag, rng) };
        let t0 = Instant::now();
        let lib = match guard(|| run_lib(dag, &order, program, &visible, &post)) {
            Ok(Ok(l)) => l,
            Ok(Err(e)) => return violated(if e.starts_with("error display") { "error-display-unbounded" } else { "inference-misc" }, format!("{} (cap {} bytes) ; order {:?} ; DAG {}", e, MAX_DISPLAY, order, crate::runner::truncate(&dag.render(), 1500))),
            Err(p) => return violated("panic:inference", format!("{} ; order {:?} ; DAG {}", p, order, dag.render())),
        };
        let ms = t0.elapsed().as_millis();
        case.max("max-case-ms", ms as u64);
        // (a) acceptance
        let summary = match (&model, &lib) {
            (Ok(want), LibResult::Ok(got)) => {
                // (b) arrows equal the principal solution
                for i in 0..dag.len() {
                    if !visible[i] {
                        continue;
                    }
                    let (w, g) = (want[i].as_ref().unwrap(), got[i].as_ref().unwrap());
                    if w != g {
                        // is the library's typing at least locally consistent?
                        let garr: Vec<(T, T)> = got.iter().map(|x| x.clone().unwrap_or((ty::unit(), ty::unit()))).collect();
                        let consistent = (0..dag.len()).filter(|j| visible[*j]).all(|j| ast::local_rule_ok_masked(dag, j, &garr, &visible).is_ok());
                        return violated(
                            if consistent { "arrow-not-principal" } else { "arrow-unsound" },
                            format!("node {} ({}) has arrow {} -> {} ; most general solution with free variables set to unit is {} -> {} ; order {:?} ; DAG {}", i, dag.nodes[i].name(), g.0, g.1, w.0, w.1, order, dag.render()),
                        );
                    }
                }
                // soundness stated directly on the library's own arrows
                let garr: Vec<(T, T)> = got.iter().map(|x| x.clone().unwrap_or((ty::unit(), ty::unit()))).collect();
                for j in 0..dag.len() {
                    if visible[j] {
                        if let Err(e) = ast::local_rule_ok_masked(dag, j, &garr, &visible) {
                            return violated("typing-rule-broken", format!("{} ; DAG {}", e, dag.render()));
                        }
                    }
                }
                "accept".to_string()
            }
            (Err(_), LibResult::CtorErr { variant, msg_len, .. }) | (Err(_), LibResult::FinalizeErr { variant, msg_len }) => {
                case.count(&format!("lib-error.{}", variant));
                case.max("max-error-display-bytes", *msg_len as u64);
                "reject".to_string()
            }
            (Ok(_), other) => {
                return violated("well-typed-rejected", format!("constraints have a finite solution but the library reports {:?} ; order {:?} ; DAG {}", other, order, dag.render()));
            }
            (Err(u), LibResult::Ok(_)) => {
                return violated(
                    match u {
                        Unsat::Occurs => "infinite-type-accepted",
                        _ => "ill-typed-accepted",
                    },
                    format!("constraints are unsatisfiable ({:?}) but the library finalised the program ; order {:?} ; DAG {}", u, order, dag.render()),
                );
            }
        };
        // (c) all orders agree
        match &first {
            None => first = Some(summary),
            Some(f) if *f != summary => return violated("order-dependent", format!("construction order changes the verdict: {} vs {} ; order {:?} ; DAG {}", f, summary, order, dag.render())),
            _ => {}
        }
        case.count("orders");
    }
    if dag.len() >= 3 {
        Outcome::Held
    } else {
        Outcome::Trivial
    }
}

pub fn run(ctx: &Ctx) {
    let t = ctx.tier;
    let k = t.pick(4usize, 12usize);
    // depth-stress first: a crash here is attributed by the driver through the progress hint
    let probe_depth = ctx.param_u64("depth", 0);
    let probe_fam = ctx.param_u64("fam", 0);
    ctx.run_sub("depth-stress", Plan::enumerate(16, 0.1), |_rng, case| {
        // depths keep clear of the overflow thresholds measured on the pinned tree with the pinned 8 MiB stack
        // (deep-sum-unify: between 25000 and 30000; deep-chain: between 120000 and 140000), so that the verdict
        // does not depend on a few kilobytes of stack more or less
        let table: [(u64, usize); 16] = [
            (0, 100), (0, 1_000), (0, 5_000), (0, 10_000), (0, 20_000), (0, 40_000), (0, 80_000), (0, 160_000),
            (1, 100), (1, 1_000), (1, 10_000), (1, 40_000), (1, 80_000), (1, 400_000), (1, 1_000_000), (1, 2_000),
        ];
        let (mut fam, mut d) = table[case.idx as usize % table.len()];
        if probe_depth > 0 {
            d = probe_depth as usize;
            fam = probe_fam;
        }
        case.hint(&format!("family={} depth={}", ["deep-sum-unify", "deep-chain"][fam as usize], d));
        let dag = depth_family(fam, d);
        case.desc = format!("family {} depth {}", ["deep-sum-unify", "deep-chain"][fam as usize], d);
        case.hash = Some(case.idx);
        let order = ast::natural_order(&dag);
        let r = guard(|| {
            Context::with_context(|ctx| {
                let wits = vec![None; dag.witness.len()];
                let inst = ast::instantiate(&dag, &ctx, &order, &wits).map_err(|e| e.err.to_string())?;
                let root = inst.nodes[dag.root()].clone().unwrap();
                root.finalize_types().map(|c| c.arrow().source.bit_width()).map_err(|e| e.to_string())
            })
        });
        match r {
            Ok(Ok(_)) => Outcome::Held,
            Ok(Err(e)) => violated("well-typed-rejected", format!("depth family rejected: {}", crate::runner::truncate(&e, 300))),
            Err(p) => violated("panic:inference", p),
        }
    });
    ctx.run_sub("random-dags", Plan::sample(t.pick(150_000, 1_500_000), 0.35), |rng, case| {
        let n = rng.urange(2, t.pick(40, 200));
        let fam = *rng.pick(&[Family::None, Family::None, Family::Core, Family::Elements]);
        let dag = gen::gen_dag(rng, n, fam);
        case.desc = dag.render();
        case.hash = Some(hash_str(&case.desc));
        let program = rng.bool();
        check_dag(&dag, program, k, rng, case)
    });
    ctx.run_sub("well-typed-programs", Plan::sample(t.pick(50_000, 500_000), 0.25), |rng, case| {
        let tp = TyParams { max_width: 60, max_depth: 4, max_word_n: 5 };
        let (a, b, program) = if rng.bool() { (ty::unit(), ty::unit(), true) } else { (ty::gen_ty(rng, &tp), ty::gen_ty(rng, &tp), false) };
        let fam = *rng.pick(&[Family::None, Family::Core, Family::Elements]);
        let mut p = GenParams { family: fam, ..GenParams::basic(rng.urange(2, 16)) };
        if rng.chance(1, 4) {
            // mutate one node to make it (probably) ill-typed
            p.fail = true;
        }
        let mut dag = gen::gen_program(rng, &p, &a, &b);
        if rng.chance(1, 3) && dag.len() > 2 {
            mutate(&mut dag, rng);
            let r = dag.root();
            dag = dag.reachable_from(r);
        }
        case.desc = dag.render();
        case.hash = Some(hash_str(&case.desc));
        check_dag(&dag, program, k, rng, case)
    });
    ctx.run_sub("special-shapes", Plan::sample(t.pick(8_000, 200_000), 0.15), |rng, case| {
        let kind = rng.below(gen::SPECIAL_KINDS);
        let depth = rng.urange(0, t.pick(60, 300));
        let dag = gen::special_dag(rng, kind, depth);
        case.desc = format!("special kind {} depth {}: {}", kind, depth, crate::runner::truncate(&dag.render(), 400));
        case.hash = Some(hash_str(&case.desc));
        check_dag(&dag, rng.bool(), k.min(4), rng, case)
    });
}

fn mutate(dag: &mut Dag, rng: &mut Rng) {
    let i = rng.usize_below(dag.len());
    let pick = |rng: &mut Rng, i: usize| if i == 0 { 0 } else { rng.usize_below(i) };
    let new = match (&dag.nodes[i], rng.below(5)) {
        (Op::InjL(c), _) => Op::InjR(*c),
        (Op::Take(c), _) => Op::Drop(*c),
        (Op::Comp(a, b), 0) => Op::Pair(*a, *b),
        (Op::Comp(a, b), _) => Op::Comp(*b, *a),
        (Op::Pair(a, b), _) => Op::Comp(*a, *b),
        (Op::Case(a, b), _) => Op::Case(*b, *a),
        (Op::Iden, _) => Op::Unit,
        (Op::Unit, _) if i > 0 => Op::Take(pick(rng, i)),
        (other, _) => other.clone(),
    };
    dag.nodes[i] = new;
}

/// Deep, well-typed 1->1 programs.
pub fn depth_family(fam: u64, n: usize) -> Dag {
    let mut d = Dag::default();
    if fam == 0 {
        // comp (pair (injl unit) unit) (comp (case (drop injl^n unit) (drop injl^n iden)) unit)
        let u0 = d.push(Op::Unit);
        let il = d.push(Op::InjL(u0));
        let u1 = d.push(Op::Unit);
        let p = d.push(Op::Pair(il, u1));
        let mut l = d.push(Op::Unit);
        for _ in 0..n {
            l = d.push(Op::InjL(l));
        }
        let dl = d.push(Op::Drop(l));
        let mut r = d.push(Op::Iden);
        for _ in 0..n {
            r = d.push(Op::InjL(r));
        }
        let dr = d.push(Op::Drop(r));
        let c = d.push(Op::Case(dl, dr));
        let u2 = d.push(Op::Unit);
        let c2 = d.push(Op::Comp(c, u2));
        d.push(Op::Comp(p, c2));
    } else {
        // comp (injl^n unit) unit
        let mut l = d.push(Op::Unit);
        for _ in 0..n {
            l = d.push(Op::InjL(l));
        }
        let u = d.push(Op::Unit);
        d.push(Op::Comp(l, u));
    }
    d
}
