//! C08 — pruning preserves commitment and behaviour and satisfies the C anti-DoS checks.

use crate::ast::{self, Dag, Op};
use crate::bits;
use crate::c06::{self, Verdict};
use crate::cffi::{self, After};
use crate::gen::{self, Family, GenParams};
use crate::prog::{self, Root};
use crate::rng::{hash_str, Rng};
use crate::runner::{guard, violated, Case, Ctx, Outcome, Plan};
use crate::txgen;
use crate::ty::{self, TyParams};
use simplicity::dag::{DagLike, InternalSharing};
use simplicity::jet::Elements;
use simplicity::node::{Inner, RedeemNode};
use simplicity::types::Context;
use simplicity::BitIter;
use std::sync::Arc;

fn gen_case_heavy(rng: &mut Rng, family: Family, fuel: usize) -> Option<Dag> {
    let p = GenParams { family, fail: rng.chance(1, 4), share_pct: 25, dup_pct: 8, mid: TyParams { max_width: 30, max_depth: 4, max_word_n: 3 }, ..GenParams::basic(fuel) };
    let (a, b) = (ty::unit(), ty::unit());
    let mut dag = gen::gen_program(rng, &p, &a, &b);
    let typing = ast::infer(&dag, true, None).ok()?;
    gen::retype_witnesses(&mut dag, &typing);
    if dag.nodes.iter().any(|o| matches!(o, Op::Disconnect(_, None))) {
        return None;
    }
    Some(dag)
}

/// Append a case node that is executed with a left AND a right value in the same run (so it keeps both branches)
/// as the last case node of the program: comp(P, comp(pair(comp(pair(injl unit, unit), K), comp(pair(injr unit, unit), K)), unit)).
fn with_both_ways_tail(dag: &Dag) -> Dag {
    let mut d = dag.clone();
    let p = d.root();
    let u = d.push(Op::Unit);
    // branches that no generated program contains, so that this case node has no structural twin elsewhere
    // (a twin pruned to an assertion would share its identity root; see known_findings.json)
    let ua = d.push(Op::Unit);
    let ub = d.push(Op::Unit);
    let uc = d.push(Op::Unit);
    let k1a = d.push(Op::Comp(ua, ub));
    let k1 = d.push(Op::Comp(k1a, uc));
    let ud = d.push(Op::Unit);
    let ue = d.push(Op::Unit);
    let uf = d.push(Op::Unit);
    let ug = d.push(Op::Unit);
    let k2a = d.push(Op::Comp(ud, ue));
    let k2b = d.push(Op::Comp(k2a, uf));
    let k2 = d.push(Op::Comp(k2b, ug));
    let k = d.push(Op::Case(k1, k2));
    let l = d.push(Op::InjL(u));
    let r = d.push(Op::InjR(u));
    let pl = d.push(Op::Pair(l, u));
    let pr = d.push(Op::Pair(r, u));
    let x1 = d.push(Op::Comp(pl, k));
    let x2 = d.push(Op::Comp(pr, k));
    let both = d.push(Op::Pair(x1, x2));
    let u2 = d.push(Op::Unit);
    let tail = d.push(Op::Comp(both, u2));
    d.push(Op::Comp(p, tail));
    d
}

/// `comp (pair J unit) (case L R)` for an Elements jet J : 1 -> A + B (or 2^32 -> ..., fed an index) whose two sides
/// have different widths: the sum type is pinned by the jet, so the assertion left by pruning keeps its padding.
fn case_on_jet_output(rng: &mut Rng, spec: &txgen::TxSpec) -> Option<Dag> {
    let jets = gen::jets_of(Family::Elements);
    let cands: Vec<&gen::JetInfo> = jets
        .iter()
        .filter(|j| (j.src.is_unit() || j.src.as_word() == Some(5)) && j.tgt.as_sum().map(|(a, b)| a.width != b.width).unwrap_or(false) && j.tgt.width < 2000)
        .collect();
    if cands.is_empty() {
        return None;
    }
    let j = *rng.pick(&cands);
    let mut d = Dag::default();
    let jn = d.push(Op::Jet(j.jet));
    let mut idx = 0u32;
    let src = if j.src.is_unit() {
        jn
    } else {
        let n_in = spec.ins.len() as u32;
        let n_out = spec.outs.len() as u32;
        idx = *rng.pick(&[0u32, 1, n_in.saturating_sub(1), n_in, n_out.saturating_sub(1), n_out, spec.ix]);
        let w = d.push(Op::Word(5, idx.to_be_bytes().to_vec()));
        d.push(Op::Comp(w, jn))
    };
    let u = d.push(Op::Unit);
    let p = d.push(Op::Pair(src, u));
    // Where the harness knows the jet's output (C15's field extractor) and it is a right value whose payload is a word
    // with an equality jet, the right branch verifies that it READS that payload: eq(take iden, const) ; verify.
    if let (Some((la, rb)), crate::c15::Expect::Value(crate::val::V::R(payload))) = (j.tgt.as_sum(), guard(|| crate::c15::expected(&j.jet.name(), spec, idx)).unwrap_or(crate::c15::Expect::Unknown)) {
        if let Some(n) = rb.as_word() {
            let eq = jets.iter().find(|x| x.jet.name() == format!("eq_{}", 1usize << n));
            let verify = jets.iter().find(|x| x.jet.name() == "verify");
            if let (Some(eq), Some(verify), true) = (eq, verify, la.width != rb.width) {
                let bits = crate::val::compact_vec(&payload, rb);
                let mut bytes = bits::bytes_of_bits(&bits);
                if bytes.is_empty() {
                    bytes.push(0);
                }
                let i = d.push(Op::Iden);
                let t = d.push(Op::Take(i));
                let uu = d.push(Op::Unit);
                let c = d.push(Op::Word(n as u8, bytes));
                let cc = d.push(Op::Comp(uu, c));
                let pr = d.push(Op::Pair(t, cc));
                let e = d.push(Op::Jet(eq.jet));
                let cmp = d.push(Op::Comp(pr, e));
                let v = d.push(Op::Jet(verify.jet));
                let r = d.push(Op::Comp(cmp, v));
                let l = d.push(Op::Unit);
                let cs = d.push(Op::Case(l, r));
                d.push(Op::Comp(p, cs));
                return Some(d);
            }
        }
    }
    // branches: A x 1 -> 1 and B x 1 -> 1, a little more than `unit` sometimes
    let mk = |d: &mut Dag, rng: &mut Rng| {
        let u = d.push(Op::Unit);
        if rng.bool() {
            u
        } else {
            let i = d.push(Op::Iden);
            let t = d.push(Op::Take(i));
            d.push(Op::Comp(t, u))
        }
    };
    let l = mk(&mut d, rng);
    let r = mk(&mut d, rng);
    let c = d.push(Op::Case(l, r));
    d.push(Op::Comp(p, c));
    Some(d)
}

pub fn one_case(rng: &mut Rng, case: &mut Case, family: Family) -> Outcome {
    let fuel = rng.urange(4, 24);
    let dag = match gen_case_heavy(rng, family, fuel) {
        Some(d) => d,
        None => return Outcome::Trivial,
    };
    // half of the programs end in a case node that keeps both branches
    let dag = if rng.bool() { with_both_ways_tail(&dag) } else { dag };
    let spec = txgen::gen_tx(rng, 3, 3);
    check_pruning(rng, case, dag, spec)
}

fn jet_case(rng: &mut Rng, case: &mut Case) -> Outcome {
    let spec = txgen::gen_tx(rng, 3, 3);
    let dag = match case_on_jet_output(rng, &spec) {
        Some(d) => d,
        None => return Outcome::Inconclusive("no jet with an unbalanced sum output".into()),
    };
    if let Some(Op::Jet(j)) = dag.nodes.first() {
        case.count(&format!("pinned-sum-jet.{}", j.name()));
    }
    let dag = if rng.chance(1, 3) { with_both_ways_tail(&dag) } else { dag };
    check_pruning(rng, case, dag, spec)
}

fn check_pruning(rng: &mut Rng, case: &mut Case, dag: Dag, spec: txgen::TxSpec) -> Outcome {
    let mut twins = false;
    match check_pruning_inner(rng, case, dag, spec, &mut twins) {
        // A recognisable class (known_findings.json): the pruned program holds two node objects with one identity root
        // (typically an assertion made by pruning and a structurally equal case node that kept both branches); the
        // encoder writes them as one node, so everything that goes through the bytes sees another program.
        Outcome::Violated { sig, detail }
            if twins && (sig.starts_with("pruned-reencode") || sig.starts_with("pruned-own-encoding-rejected") || sig.starts_with("c-rejects-pruned") || sig.starts_with("pruned-roots-differ-from-c") || sig.starts_with("c-eval-pruned")) =>
        {
            violated("pruned-encoding:equal-ihr-twins", format!("[{}] {}", sig, detail))
        }
        o => o,
    }
}

fn check_pruning_inner(rng: &mut Rng, case: &mut Case, dag: Dag, spec: txgen::TxSpec, twins: &mut bool) -> Outcome {
    let env = match guard(|| txgen::build_env(&spec)) {
        Ok(e) => e,
        Err(pn) => return violated("panic:env-build", pn),
    };
    case.desc = format!("{} ; {}", crate::runner::truncate(&dag.render(), 2500), txgen::describe(&spec));
    case.hash = Some(hash_str(&case.desc));
    let n_case = dag.nodes.iter().filter(|o| matches!(o, Op::Case(..))).count();
    let wits = match prog::witness_values(&dag, rng, false) {
        Ok(w) => w,
        Err(e) => return violated("witness-history-failed", e),
    };
    let order = ast::natural_order(&dag);
    let p = match guard(|| prog::build_redeem(&dag, &order, &wits, None, Root::Program)) {
        Ok(Ok(r)) => r,
        Ok(Err(e)) => return violated("well-typed-program-rejected", format!("{} ; {}", e, dag.render())),
        Err(pn) => return violated("panic:build", pn),
    };
    // run the unpruned program
    let (res, _) = match guard(|| prog::run_machine(&p, None, &env)) {
        Ok(Ok(x)) => x,
        Ok(Err(_)) => return Outcome::Inconclusive("machine limit".into()),
        Err(pn) => return violated("panic:exec", format!("{} ; {}", pn, case.desc)),
    };
    let pruned = guard(|| p.prune(&env));
    let q = match (&res, pruned) {
        (_, Err(pn)) => return violated("panic:prune", format!("{} ; {}", pn, case.desc)),
        (Ok(_), Ok(Ok(q))) => q,
        (Ok(_), Ok(Err(e))) => return violated("prune-failed-after-successful-run", format!("exec succeeded but prune returned {} ; {}", e, case.desc)),
        (Err(e1), Ok(Err(e2))) => {
            if c06::rust_verdict(&Err::<simplicity::Value, _>(clone_err(e1))) != c06::rust_verdict(&Err::<simplicity::Value, _>(e2)) {
                return violated("prune-error-kind", format!("exec failed with `{}` but prune with another kind ; {}", e1, case.desc));
            }
            case.count("run-failed.prune-failed-same-kind");
            return if n_case > 0 { Outcome::Held } else { Outcome::Trivial };
        }
        (Err(e1), Ok(Ok(_))) => return violated("prune-succeeded-after-failed-run", format!("exec failed with `{}` but prune succeeded ; {}", e1, case.desc)),
    };
    case.count("run-ok");
    *twins = has_ihr_twins(&q);
    // 1. same commitment root
    if q.cmr() != p.cmr() {
        return violated("pruned-cmr-differs", format!("CMR {} before, {} after pruning ; {}", p.cmr(), q.cmr(), case.desc));
    }
    // 2. runs successfully with the same output
    match guard(|| prog::run_machine(&q, None, &env)) {
        Ok(Ok((Ok(_), st))) => {
            if st.frame_oob != 0 || st.hw_cells > st.io_width + st.extra_cells || st.hw_frames > st.extra_frames + 2 {
                return violated("pruned-run-exceeds-bounds", format!("pruned program: {:?} ; {}", st, case.desc));
            }
        }
        Ok(Ok((Err(e), _))) => return violated("pruned-run-fails", format!("the pruned program fails in the same environment: {} ; {}", e, case.desc)),
        Ok(Err(e)) => return violated("pruned-machine-refused", e),
        Err(pn) => return violated("panic:exec-pruned", format!("{} ; {}", pn, case.desc)),
    }
    // 3. every witness well-typed; count what shrank
    let mut shrunk = false;
    for d in q.as_ref().post_order_iter::<InternalSharing>() {
        if let Inner::Witness(v) = d.node.inner() {
            if !v.is_of_type(&d.node.arrow().target) {
                return violated("pruned-witness-ill-typed", format!("witness {} at node of type {} ; {}", v, d.node.arrow().target, case.desc));
            }
        }
        if matches!(d.node.inner(), Inner::AssertL(..) | Inner::AssertR(..)) {
            shrunk = true;
        }
    }
    // 4. idempotent
    match guard(|| q.prune(&env)) {
        Ok(Ok(r)) => {
            if r.ihr() != q.ihr() || r.to_vec_with_witness() != q.to_vec_with_witness() {
                return violated("prune-not-idempotent", format!("pruning the pruned program again changes it (IHR {} -> {}) ; {} ; first pruning:\n{}\nsecond pruning:\n{}", q.ihr(), r.ihr(), case.desc, dump(&q), dump(&r)));
            }
        }
        Ok(Err(e)) => return violated("reprune-failed", format!("{} ; {}", e, case.desc)),
        Err(pn) => return violated("panic:reprune", format!("{} ; {}", pn, case.desc)),
    }
    // 5. the serialised result: Rust decodes it back, C accepts it with all anti-DoS checks
    let (pb, wb) = q.to_vec_with_witness();
    match guard(|| RedeemNode::decode::<_, _, Elements>(BitIter::from(&pb[..]), BitIter::from(&wb[..]))) {
        Ok(Ok(d)) => {
            if d.to_vec_with_witness() != (pb.clone(), wb.clone()) || d.ihr() != q.ihr() {
                return violated("pruned-reencode", format!("decoding the pruned program's bytes gives another program ; {}", case.desc));
            }
        }
        Ok(Err(e)) => return violated("pruned-own-encoding-rejected", format!("RedeemNode::decode rejects the pruned program: {} ; bytes {} / {} ; {}", e, bits::fmt_bytes(&pb), bits::fmt_bytes(&wb), case.desc)),
        Err(pn) => return violated("panic:decode-pruned", pn),
    }
    let has_fail = q.as_ref().post_order_iter::<InternalSharing>().any(|d| matches!(d.node.inner(), Inner::Fail(_)));
    if has_fail {
        // cannot happen after a successful run (a reached fail node fails the run; an unreached one is pruned)
        return violated("pruned-keeps-fail-node", format!("a fail node survived pruning of a successful run ; {}", case.desc));
    }
    let c = cffi::run_c(&pb, &wb, After::Eval { flags: cffi::CHECK_ALL, env: Some(env.c_tx_env()) });
    if c.err != 0 {
        if matches!(c.err, -1 | -36 | -34) {
            return Outcome::Inconclusive(format!("C limit {}", cffi::err_name(c.err)));
        }
        return violated(format!("c-rejects-pruned:{}", cffi::err_name(c.err)), format!("C fails at stage `{}` with {} on the pruned program ; bytes {} / {} ; {}", c.stage, cffi::err_name(c.err), bits::fmt_bytes(&pb), bits::fmt_bytes(&wb), case.desc));
    }
    // roots and cost of the pruned program agree with C as well (C03 on pruned programs)
    if c.analysis.cmr != q.cmr().to_byte_array() || c.analysis.ihr != q.ihr().to_byte_array() || c.analysis.amr != q.amr().to_byte_array() || simplicity::Cost::from_milliweight(c.analysis.cost) != q.bounds().cost {
        return violated(
            "pruned-roots-differ-from-c",
            format!(
                "roots/cost of the pruned program differ between Rust and C: cmr {} ihr {} amr {} cost {} (Rust {:?} / C {}) ; pruned program:\n{} ; {}",
                c.analysis.cmr == q.cmr().to_byte_array(),
                c.analysis.ihr == q.ihr().to_byte_array(),
                c.analysis.amr == q.amr().to_byte_array(),
                simplicity::Cost::from_milliweight(c.analysis.cost) == q.bounds().cost,
                q.bounds().cost,
                c.analysis.cost,
                dump(&q),
                case.desc
            ),
        );
    }
    match c.eval {
        Some(0) => {}
        Some(e) if matches!(e, -1 | -36 | -34) => return Outcome::Inconclusive(format!("C limit {}", cffi::err_name(e))),
        Some(e) => return violated(format!("c-eval-pruned:{}", cffi::err_name(e)), format!("C evaluation of the pruned program with all anti-DoS checks returns {} ; bytes {} / {} ; {}", cffi::err_name(e), bits::fmt_bytes(&pb), bits::fmt_bytes(&wb), case.desc)),
        None => return Outcome::Inconclusive("C eval not reached".into()),
    }
    // 6. finalize_pruned from the construct node gives the same program
    let fp = guard(|| {
        Context::with_context(|ctx| {
            let inst = ast::instantiate(&dag, &ctx, &order, &wits).map_err(|e| e.err.to_string())?;
            let root = inst.nodes[dag.root()].clone().unwrap();
            root.set_arrow_to_program().map_err(|e| e.to_string())?;
            root.finalize_pruned(&env).map_err(|e| e.to_string())
        })
    });
    match fp {
        Ok(Ok(f)) => {
            if f.ihr() != q.ihr() {
                return violated("finalize-pruned-differs", format!("finalize_pruned gives IHR {} ; finalize_unpruned + prune gives {} ; {}", f.ihr(), q.ihr(), case.desc));
            }
        }
        Ok(Err(e)) => return violated("finalize-pruned-failed", format!("{} ; {}", e, case.desc)),
        Err(pn) => return violated("panic:finalize_pruned", pn),
    }
    if shrunk {
        case.count("pruned.has-assertions");
    }
    if q.to_vec_with_witness().0.len() < p.to_vec_with_witness().0.len() {
        case.count("pruned.smaller");
    }
    let _ = Verdict::Ok;
    if n_case > 0 {
        Outcome::Held
    } else {
        Outcome::Trivial
    }
}

/// Does the program hold two node objects with one identity root that are not the same kind of node or are typed
/// differently inside (e.g. a case node and an assertion that pruning made out of a structurally equal case node)?
fn has_ihr_twins(r: &RedeemNode) -> bool {
    let mut seen: std::collections::HashMap<[u8; 32], (String, [u8; 32])> = std::collections::HashMap::new();
    for d in r.post_order_iter::<InternalSharing>() {
        let kind = match d.node.inner() {
            Inner::Case(..) => "case",
            Inner::AssertL(..) => "assertl",
            Inner::AssertR(..) => "assertr",
            _ => "other",
        }
        .to_string();
        let e = seen.entry(d.node.ihr().to_byte_array()).or_insert((kind.clone(), d.node.amr().to_byte_array()));
        if e.0 != kind || e.1 != d.node.amr().to_byte_array() {
            return true;
        }
    }
    false
}

fn dump(r: &RedeemNode) -> String {
    let mut s = String::new();
    for d in r.post_order_iter::<InternalSharing>() {
        s.push_str(&format!("  {}: {} ({:?},{:?}) : {} ihr {}", d.index, d.node.inner(), d.left_index, d.right_index, d.node.arrow(), d.node.ihr()));
        if let Inner::Witness(v) = d.node.inner() {
            s.push_str(&format!(" value {} : {}", v, v.ty()));
        }
        s.push('\n');
    }
    s
}

fn clone_err(e: &simplicity::bit_machine::ExecutionError) -> simplicity::bit_machine::ExecutionError {
    use simplicity::bit_machine::ExecutionError as E;
    match e {
        E::InputWrongType(t) => E::InputWrongType(t.clone()),
        E::ReachedFailNode(x) => E::ReachedFailNode(*x),
        E::ReachedPrunedBranch(c) => E::ReachedPrunedBranch(*c),
        E::LimitExceeded(l) => E::LimitExceeded(l.clone()),
        E::JetFailed(j) => E::JetFailed(*j),
        E::JetTypeMismatch => E::JetTypeMismatch,
    }
}

pub fn run(ctx: &Ctx) {
    let t = ctx.tier;
    ctx.run_sub("nojets", Plan::sample(t.pick(40_000, 2_000_000), 0.45), |rng, case| one_case(rng, case, Family::None));
    ctx.run_sub("elements", Plan::sample(t.pick(30_000, 1_600_000), 0.4), |rng, case| one_case(rng, case, Family::Elements));
    ctx.run_sub("cases-on-jet-outputs", Plan::sample(t.pick(6_000, 300_000), 0.1), jet_case);
}
