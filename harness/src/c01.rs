//! C01 — program and witness bit-encoding round-trips.

use crate::ast::{self, Dag, Op};
use crate::bits;
use crate::enc::{self, ENode};
use crate::gen::{self, Family, GenParams};
use crate::prog::{self, Root};
use crate::rng::{hash_str, Rng};
use crate::runner::{guard, violated, Case, Ctx, Outcome, Plan};
use crate::ty;
use crate::val;
use simplicity::dag::{DagLike, MaxSharing};
use simplicity::jet::{Core, Elements};
use simplicity::node::{Commit, CommitNode, Redeem, RedeemNode};
use simplicity::{BitIter, Value};
use std::sync::Arc;

fn decode_redeem(p: &[u8], w: &[u8], family: Family) -> Result<Arc<RedeemNode>, String> {
    match family {
        Family::Elements => RedeemNode::decode::<_, _, Elements>(BitIter::from(p), BitIter::from(w)).map_err(|e| e.to_string()),
        _ => RedeemNode::decode::<_, _, Core>(BitIter::from(p), BitIter::from(w)).map_err(|e| e.to_string()),
    }
}

fn decode_commit(p: &[u8], family: Family) -> Result<Arc<CommitNode>, String> {
    match family {
        Family::Elements => CommitNode::decode::<_, Elements>(BitIter::from(p)).map_err(|e| e.to_string()),
        _ => CommitNode::decode::<_, Core>(BitIter::from(p)).map_err(|e| e.to_string()),
    }
}

struct NodeInfo {
    cmr: [u8; 32],
    src: [u8; 32],
    tgt: [u8; 32],
    ihr: Option<[u8; 32]>,
    amr: Option<[u8; 32]>,
    kind: String,
    witness: Option<Value>,
}

fn redeem_nodes(r: &RedeemNode) -> Vec<NodeInfo> {
    r.post_order_iter::<MaxSharing<Redeem>>()
        .map(|d| NodeInfo {
            cmr: d.node.cmr().to_byte_array(),
            src: d.node.arrow().source.tmr().to_byte_array(),
            tgt: d.node.arrow().target.tmr().to_byte_array(),
            ihr: Some(d.node.ihr().to_byte_array()),
            amr: Some(d.node.amr().to_byte_array()),
            kind: format!("{}", d.node.inner()),
            witness: if let simplicity::node::Inner::Witness(v) = d.node.inner() { Some(v.clone()) } else { None },
        })
        .collect()
}

fn commit_nodes(c: &CommitNode) -> Vec<NodeInfo> {
    c.post_order_iter::<MaxSharing<Commit>>()
        .map(|d| NodeInfo {
            cmr: d.node.cmr().to_byte_array(),
            src: d.node.arrow().source.tmr().to_byte_array(),
            tgt: d.node.arrow().target.tmr().to_byte_array(),
            ihr: d.node.ihr().map(|x| x.to_byte_array()),
            amr: d.node.amr().map(|x| x.to_byte_array()),
            kind: format!("{}", d.node.inner()),
            witness: None,
        })
        .collect()
}

fn compare_lists(a: &[NodeInfo], b: &[NodeInfo], what: &str) -> Result<(), (String, String)> {
    if a.len() != b.len() {
        return Err((format!("{}-node-count", what), format!("original has {} nodes under maximal sharing, decoded has {}", a.len(), b.len())));
    }
    for (i, (x, y)) in a.iter().zip(b.iter()).enumerate() {
        let h = |v: &[u8; 32]| bits::fmt_bytes(v);
        if x.cmr != y.cmr {
            return Err((format!("{}-cmr", what), format!("node {} ({}): CMR {} vs decoded {}", i, x.kind, h(&x.cmr), h(&y.cmr))));
        }
        if x.src != y.src || x.tgt != y.tgt {
            return Err((format!("{}-arrow", what), format!("node {} ({}): arrow TMRs {}->{} vs decoded ({}) {}->{}", i, x.kind, h(&x.src), h(&x.tgt), y.kind, h(&y.src), h(&y.tgt))));
        }
        if x.ihr != y.ihr {
            return Err((format!("{}-ihr", what), format!("node {} ({}): IHR {:?} vs decoded {:?}", i, x.kind, x.ihr.map(|v| h(&v)), y.ihr.map(|v| h(&v)))));
        }
        if x.amr != y.amr {
            return Err((format!("{}-amr", what), format!("node {} ({}): AMR {:?} vs decoded {:?}", i, x.kind, x.amr.map(|v| h(&v)), y.amr.map(|v| h(&v)))));
        }
        match (&x.witness, &y.witness) {
            (None, None) => {}
            (Some(v), Some(w)) => {
                if !val::sem_eq(v, w) {
                    return Err((format!("{}-witness", what), format!("witness at node {}: {} vs decoded {}", i, v, w)));
                }
            }
            _ => return Err((format!("{}-witness", what), format!("node {}: witness on one side only", i))),
        }
    }
    Ok(())
}

pub fn make_program(rng: &mut Rng, family: Family, fuel: usize, unique_wd: bool) -> Result<(Dag, ast::Typing), String> {
    let mut p = GenParams { family, ..GenParams::basic(fuel) };
    p.share_pct = 15;
    p.dup_pct = 10;
    if unique_wd {
        p.share_pct = 0;
        p.dup_pct = 0;
    }
    let (a, b) = (ty::unit(), ty::unit());
    let mut dag = gen::gen_program(rng, &p, &a, &b);
    let typing = prog::typing_ok_or_harness(&dag, true, None)?;
    gen::retype_witnesses(&mut dag, &typing);
    Ok((dag, typing))
}

/// Does the program hold two node objects with one identity root whose interiors are typed differently?
/// (Known limitation, see known_findings.json: the encoder writes such twins as one node.)
fn has_differently_typed_ihr_twins(p: &RedeemNode) -> bool {
    use simplicity::dag::InternalSharing;
    let mut by_ihr: std::collections::HashMap<[u8; 32], [u8; 32]> = std::collections::HashMap::new();
    for x in p.post_order_iter::<InternalSharing>() {
        let (i, a) = (x.node.ihr().to_byte_array(), x.node.amr().to_byte_array());
        if *by_ihr.entry(i).or_insert(a) != a {
            return true;
        }
    }
    false
}

fn redeem_case(rng: &mut Rng, case: &mut Case, family: Family) -> Outcome {
    let fuel = rng.urange(2, if case.tier() == crate::runner::Tier::Quick { 18 } else { 40 });
    let (dag, _typing) = match make_program(rng, family, fuel, false) {
        Ok(x) => x,
        Err(e) => return Outcome::Inconclusive(e),
    };
    if dag.nodes.iter().any(|o| matches!(o, Op::Disconnect(_, None))) {
        return Outcome::Trivial;
    }
    case.desc = dag.render();
    case.hash = Some(hash_str(&case.desc));
    let wits = match prog::witness_values(&dag, rng, true) {
        Ok(w) => w,
        Err(e) => return violated("witness-history-failed", e),
    };
    let order = ast::natural_order(&dag);
    let p = match guard(|| prog::build_redeem(&dag, &order, &wits, None, Root::Program)) {
        Ok(Ok(r)) => r,
        Ok(Err(e)) => return violated("well-typed-program-rejected", format!("{} ; {}", e, dag.render())),
        Err(pn) => return violated("panic:build", pn),
    };
    // identity roots identify: two witness nodes that hold different values never share an identity root
    // (the encoder would write them as one node)
    {
        use simplicity::dag::InternalSharing;
        let mut by_ihr: std::collections::HashMap<[u8; 32], Value> = std::collections::HashMap::new();
        for x in p.as_ref().post_order_iter::<InternalSharing>() {
            if let simplicity::node::Inner::Witness(v) = x.node.inner() {
                case.count("witness-nodes-ihr-checked");
                match by_ihr.get(&x.node.ihr().to_byte_array()) {
                    Some(other) if !val::sem_eq(other, v) || !other.is_of_type(&x.node.arrow().target) => {
                        return violated("ihr-collision:witness", format!("two witness nodes with identity root {} hold different values {} and {} ; program {}", x.node.ihr(), other, v, dag.render()));
                    }
                    Some(_) => {}
                    None => {
                        by_ihr.insert(x.node.ihr().to_byte_array(), v.clone());
                    }
                }
            }
        }
    }
    let (pb, wb) = match guard(|| p.to_vec_with_witness()) {
        Ok(x) => x,
        Err(pn) => return violated("panic:encode", format!("{} ; {}", pn, dag.render())),
    };
    let p2 = match guard(|| decode_redeem(&pb, &wb, family)) {
        Ok(Ok(r)) => r,
        Ok(Err(e)) => {
            let sig = if has_differently_typed_ihr_twins(&p) { "redeem-own-encoding-rejected:equal-ihr-nodes-typed-differently" } else { "redeem-own-encoding-rejected" };
            return violated(sig, format!("decoding the library's own encoding failed: {} ; program {} ; bytes {} / {}", e, dag.render(), bits::fmt_bytes(&pb), bits::fmt_bytes(&wb)));
        }
        Err(pn) => return violated("panic:decode", format!("{} ; {}", pn, dag.render())),
    };
    if let Err((sig, d)) = compare_lists(&redeem_nodes(&p), &redeem_nodes(&p2), "redeem") {
        // A recognisable class: the program holds two node objects with one identity root (equal
        // structure, witnesses and outer types) whose interior types differ, because one of them
        // shares a child with another part of the program. The encoder writes such nodes once.
        if sig == "redeem-amr" && has_differently_typed_ihr_twins(&p) {
            return violated("redeem-amr:equal-ihr-nodes-typed-differently", format!("{} ; program {}", d, dag.render()));
        }
        return violated(sig, format!("{} ; program {}", d, dag.render()));
    }
    let (pb2, wb2) = p2.to_vec_with_witness();
    if pb2 != pb || wb2 != wb {
        return violated("redeem-reencode", format!("re-encoding the decoded program gives {} / {} ; original {} / {} ; program {}", bits::fmt_bytes(&pb2), bits::fmt_bytes(&wb2), bits::fmt_bytes(&pb), bits::fmt_bytes(&wb), dag.render()));
    }
    // ---- independent reading of the bytes
    let all = bits::bits_of_bytes(&pb);
    let parsed = match enc::parse_list(&all, family) {
        Ok(p) => p,
        Err(e) => return violated("model-parse-failed", format!("the reference parser cannot read the program bytes {}: {:?} ; program {}", bits::fmt_bytes(&pb), e, dag.render())),
    };
    if all[parsed.bits_used..].iter().any(|b| *b) || all.len() - parsed.bits_used >= 8 {
        return violated("encoding-trailing-bits", format!("program encoding has {} bits, the node list ends at bit {} and the rest is not zero padding of the last byte", all.len(), parsed.bits_used));
    }
    let pdag = match enc::dag_of_list(&parsed.list) {
        Some(d) => d,
        None => return violated("model-parse-shape", format!("encoded node list is not a program shape ; bytes {}", bits::fmt_bytes(&pb))),
    };
    let s1 = enc::structure_hashes(&dag)[dag.root()];
    let s2 = enc::structure_hashes(&pdag)[pdag.root()];
    if s1 != s2 {
        return violated("encoding-other-program", format!("the encoded node list unfolds to a different expression than the one serialised ; generated {} ; encoded {}", dag.render(), pdag.render()));
    }
    if ast::cmrs(&pdag)[pdag.root()] != ast::cmrs(&dag)[dag.root()] {
        return violated("encoding-other-cmr", "encoded list has a different model CMR".to_string());
    }
    // the witness stream, read with reference types of the encoded list, must be P's witness values in order
    let ptyping = match ast::infer(&pdag, true, None) {
        Ok(t) => t,
        Err(e) => return violated("encoding-ill-typed", format!("the encoded list does not type-check in the reference inference: {:?}", e)),
    };
    let wbits = bits::bits_of_bytes(&wb);
    let mut wpos = 0usize;
    let lib_wits: Vec<Value> = redeem_nodes(&p).into_iter().filter_map(|n| n.witness).collect();
    let mut k = 0usize;
    for (i, op) in pdag.nodes.iter().enumerate() {
        if let Op::Witness(_) = op {
            let t = &ptyping[i].1;
            match val::decode_compact(&wbits[wpos..], t) {
                Some((v, used)) => {
                    wpos += used;
                    match lib_wits.get(k) {
                        Some(lv) => {
                            if let Err(e) = val::denotes(lv, &v, t) {
                                return violated("witness-stream-order", format!("witness #{} in the stream (type {}) is {} but the program's {}-th witness node holds {} : {} ; program {}", k, t, val::show(&v), k, lv, e, dag.render()));
                            }
                        }
                        None => return violated("witness-stream-count", format!("stream has more witness values than the program has witness nodes ; program {}", dag.render())),
                    }
                    k += 1;
                }
                None => return violated("witness-stream-short", format!("witness stream ends inside value #{} ; program {}", k, dag.render())),
            }
        }
    }
    if k != lib_wits.len() {
        return violated("witness-stream-count", format!("stream holds {} values, program has {} witness nodes under sharing", k, lib_wits.len()));
    }
    if wbits[wpos..].iter().any(|b| *b) || wbits.len() - wpos >= 8 {
        return violated("witness-trailing-bits", format!("witness stream has {} bits, values end at {}", wbits.len(), wpos));
    }
    case.add("witness-values", k as u64);
    case.add("encoded-nodes", parsed.list.len() as u64);
    if parsed.list.len() < dag.len() {
        case.count("sharing-merged-nodes");
    }
    if parsed.list.iter().any(|n| matches!(n, ENode::Hidden(_))) {
        case.count("has-hidden");
    }
    if dag.nodes.iter().any(|n| matches!(n, Op::Disconnect(..))) {
        case.count("has-disconnect");
    }
    if dag.len() >= 5 {
        Outcome::Held
    } else {
        Outcome::Trivial
    }
}

fn commit_case(rng: &mut Rng, case: &mut Case, family: Family) -> Outcome {
    let fuel = rng.urange(2, 16);
    let (mut dag, _typing) = match make_program(rng, family, fuel, true) {
        Ok(x) => x,
        Err(e) => return Outcome::Inconclusive(e),
    };
    // commitment time: disconnect carries no branch
    for i in 0..dag.len() {
        if let Op::Disconnect(l, Some(_)) = dag.nodes[i] {
            dag.nodes[i] = Op::Disconnect(l, None);
        }
    }
    let r = dag.root();
    let dag = gen::compact_witnesses(dag.reachable_from(r));
    if ast::infer(&dag, true, None).is_err() {
        return Outcome::Trivial;
    }
    case.desc = dag.render();
    case.hash = Some(hash_str(&case.desc));
    let order = ast::natural_order(&dag);
    let c = match guard(|| prog::build_commit(&dag, &order, None, Root::Program)) {
        Ok(Ok(c)) => c,
        Ok(Err(e)) => return violated("well-typed-program-rejected", format!("{} ; {}", e, dag.render())),
        Err(pn) => return violated("panic:build", pn),
    };
    // commitment-time roots are the redemption-time roots wherever they are defined (no witness / disconnect below)
    if !dag.nodes.iter().any(|o| matches!(o, Op::Disconnect(..))) {
        if let Ok(wits) = prog::witness_values(&dag, rng, false) {
            if let Ok(Ok(r)) = guard(|| prog::build_redeem(&dag, &order, &wits, None, Root::Program)) {
                use simplicity::dag::InternalSharing;
                let cn: Vec<_> = c.as_ref().post_order_iter::<InternalSharing>().collect();
                let rn: Vec<_> = r.as_ref().post_order_iter::<InternalSharing>().collect();
                if cn.len() != rn.len() {
                    return violated("commit-vs-redeem-shape", format!("{} nodes at commitment time, {} at redemption time ; program {}", cn.len(), rn.len(), dag.render()));
                }
                for (a, b) in cn.iter().zip(rn.iter()) {
                    if a.node.cmr() != b.node.cmr() {
                        return violated("commit-vs-redeem-cmr", format!("node {} ({}): CMR {} at commitment time, {} at redemption time ; program {}", a.index, a.node.inner(), a.node.cmr(), b.node.cmr(), dag.render()));
                    }
                    if a.node.arrow().source.tmr() != b.node.arrow().source.tmr() || a.node.arrow().target.tmr() != b.node.arrow().target.tmr() {
                        return violated("commit-vs-redeem-arrow", format!("node {} ({}): {} at commitment time, {} at redemption time ; program {}", a.index, a.node.inner(), a.node.arrow(), b.node.arrow(), dag.render()));
                    }
                    if let Some(i) = a.node.ihr() {
                        case.count("commit-ihr-compared-with-redeem");
                        if i != b.node.ihr() {
                            return violated("commit-vs-redeem-ihr", format!("node {} ({}): IHR {} at commitment time, {} at redemption time ; program {}", a.index, a.node.inner(), i, b.node.ihr(), dag.render()));
                        }
                    }
                    if let Some(m) = a.node.amr() {
                        if m != b.node.amr() {
                            return violated("commit-vs-redeem-amr", format!("node {} ({}): AMR {} at commitment time, {} at redemption time ; program {}", a.index, a.node.inner(), m, b.node.amr(), dag.render()));
                        }
                    }
                }
            }
        }
    }
    let pb = c.to_vec_without_witness();
    let c2 = match guard(|| decode_commit(&pb, family)) {
        Ok(Ok(c)) => c,
        Ok(Err(e)) => return violated("commit-own-encoding-rejected", format!("decoding the library's own commit-time encoding failed: {} ; program {} ; bytes {}", e, dag.render(), bits::fmt_bytes(&pb))),
        Err(pn) => return violated("panic:decode", pn),
    };
    if let Err((sig, d)) = compare_lists(&commit_nodes(&c), &commit_nodes(&c2), "commit") {
        return violated(sig, format!("{} ; program {}", d, dag.render()));
    }
    let pb2 = c2.to_vec_without_witness();
    if pb2 != pb {
        return violated("commit-reencode", format!("re-encoding gives {} ; original {} ; program {}", bits::fmt_bytes(&pb2), bits::fmt_bytes(&pb), dag.render()));
    }
    let all = bits::bits_of_bytes(&pb);
    match enc::parse_list(&all, family).ok().and_then(|p| enc::dag_of_list(&p.list)) {
        Some(pdag) => {
            if enc::structure_hashes(&pdag)[pdag.root()] != enc::structure_hashes(&dag)[dag.root()] {
                return violated("encoding-other-program", format!("commit-time encoding unfolds to a different expression ; generated {} ; encoded {}", dag.render(), pdag.render()));
            }
        }
        None => return violated("model-parse-failed", format!("reference parser cannot read commit-time bytes {}", bits::fmt_bytes(&pb))),
    }
    if dag.len() >= 5 {
        Outcome::Held
    } else {
        Outcome::Trivial
    }
}

pub fn run(ctx: &Ctx) {
    let t = ctx.tier;
    for (name, fam, n) in [("redeem-nojets", Family::None, t.pick(100_000u64, 1_000_000)), ("redeem-core", Family::Core, t.pick(75_000, 800_000)), ("redeem-elements", Family::Elements, t.pick(75_000, 800_000))] {
        ctx.run_sub(name, Plan::sample(n, 0.25), |rng, case| redeem_case(rng, case, fam));
    }
    for (name, fam, n) in [("commit-core", Family::Core, t.pick(40_000u64, 300_000)), ("commit-elements", Family::Elements, t.pick(40_000, 300_000))] {
        ctx.run_sub(name, Plan::sample(n, 0.12), |rng, case| commit_case(rng, case, fam));
    }
}
