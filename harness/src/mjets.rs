//! M-jets: native reference functions for the width-parametric Core jets (arithmetic, logic,
//! comparison, shifts, padding/extension). Inputs/outputs are bit strings (these jets' types are
//! products of words and bits, which have no padding). Jets without a reference return `None`
//! and are never generated for C05; they are checked against C by C06/C14.

fn rd(bits: &[bool], pos: &mut usize, n: usize) -> u128 {
    let mut v = 0u128;
    for _ in 0..n {
        v = (v << 1) | u128::from(bits[*pos]);
        *pos += 1;
    }
    v
}

fn wr(out: &mut Vec<bool>, v: u128, n: usize) {
    for i in (0..n).rev() {
        out.push((v >> i) & 1 == 1);
    }
}

fn mask(n: usize) -> u128 {
    if n >= 128 {
        u128::MAX
    } else {
        (1u128 << n) - 1
    }
}

/// Split "name_8" / "name_16_4" into (base, [numbers]).
fn split_name(name: &str) -> (String, Vec<usize>) {
    let parts: Vec<&str> = name.split('_').collect();
    let mut nums = Vec::new();
    let mut end = parts.len();
    while end > 0 {
        if let Ok(n) = parts[end - 1].parse::<usize>() {
            nums.insert(0, n);
            end -= 1;
        } else {
            break;
        }
    }
    (parts[..end].join("_"), nums)
}

/// `Some(Ok(output bits))`, `Some(Err(()))` = the jet fails on this input, `None` = no reference.
pub fn eval(name: &str, input: &[bool]) -> Option<Result<Vec<bool>, ()>> {
    let (base, nums) = split_name(name);
    let mut p = 0usize;
    let mut out = Vec::new();
    let n = nums.first().copied().unwrap_or(0);
    let m = mask(n);
    let log_for = |bits: usize| if bits <= 16 { 4 } else { 8 };
    match (base.as_str(), nums.len()) {
        ("verify", 0) => {
            return Some(if input[0] { Ok(vec![]) } else { Err(()) });
        }
        ("low", 1) => wr(&mut out, 0, n),
        ("high", 1) => wr(&mut out, m, n),
        ("one", 1) => wr(&mut out, 1, n),
        ("complement", 1) => {
            let x = rd(input, &mut p, n);
            wr(&mut out, !x & m, n)
        }
        ("and", 1) | ("or", 1) | ("xor", 1) => {
            let x = rd(input, &mut p, n);
            let y = rd(input, &mut p, n);
            let r = match base.as_str() {
                "and" => x & y,
                "or" => x | y,
                _ => x ^ y,
            };
            wr(&mut out, r, n)
        }
        ("maj", 1) | ("xor_xor", 1) | ("ch", 1) => {
            let x = rd(input, &mut p, n);
            let y = rd(input, &mut p, n);
            let z = rd(input, &mut p, n);
            let r = match base.as_str() {
                "maj" => (x & y) | (y & z) | (z & x),
                "xor_xor" => x ^ y ^ z,
                _ => (x & y) | (!x & m & z),
            };
            wr(&mut out, r, n)
        }
        ("some", 1) => {
            let x = rd(input, &mut p, n);
            out.push(x != 0)
        }
        ("all", 1) => {
            let x = rd(input, &mut p, n);
            out.push(x == m)
        }
        ("eq", 1) => {
            if n > 128 {
                // eq_256
                let a = &input[..n];
                let b = &input[n..2 * n];
                out.push(a == b);
            } else {
                let x = rd(input, &mut p, n);
                let y = rd(input, &mut p, n);
                out.push(x == y)
            }
        }
        ("is_zero", 1) => {
            let x = rd(input, &mut p, n);
            out.push(x == 0)
        }
        ("is_one", 1) => {
            let x = rd(input, &mut p, n);
            out.push(x == 1)
        }
        ("lt", 1) | ("le", 1) => {
            let x = rd(input, &mut p, n);
            let y = rd(input, &mut p, n);
            out.push(if base == "lt" { x < y } else { x <= y })
        }
        ("min", 1) | ("max", 1) => {
            let x = rd(input, &mut p, n);
            let y = rd(input, &mut p, n);
            wr(&mut out, if base == "min" { x.min(y) } else { x.max(y) }, n)
        }
        ("median", 1) => {
            let mut v = [rd(input, &mut p, n), rd(input, &mut p, n), rd(input, &mut p, n)];
            v.sort();
            wr(&mut out, v[1], n)
        }
        ("add", 1) => {
            let x = rd(input, &mut p, n);
            let y = rd(input, &mut p, n);
            let s = x + y;
            out.push(s > m);
            wr(&mut out, s & m, n)
        }
        ("full_add", 1) => {
            let z = rd(input, &mut p, 1);
            let x = rd(input, &mut p, n);
            let y = rd(input, &mut p, n);
            let s = x + y + z;
            out.push(s > m);
            wr(&mut out, s & m, n)
        }
        ("increment", 1) => {
            let x = rd(input, &mut p, n);
            let s = x + 1;
            out.push(s > m);
            wr(&mut out, s & m, n)
        }
        ("full_increment", 1) => {
            let z = rd(input, &mut p, 1);
            let x = rd(input, &mut p, n);
            let s = x + z;
            out.push(s > m);
            wr(&mut out, s & m, n)
        }
        ("subtract", 1) => {
            let x = rd(input, &mut p, n);
            let y = rd(input, &mut p, n);
            out.push(x < y);
            wr(&mut out, x.wrapping_sub(y) & m, n)
        }
        ("full_subtract", 1) => {
            let z = rd(input, &mut p, 1);
            let x = rd(input, &mut p, n);
            let y = rd(input, &mut p, n);
            out.push(x < y + z);
            wr(&mut out, x.wrapping_sub(y).wrapping_sub(z) & m, n)
        }
        ("decrement", 1) => {
            let x = rd(input, &mut p, n);
            out.push(x < 1);
            wr(&mut out, x.wrapping_sub(1) & m, n)
        }
        ("full_decrement", 1) => {
            let z = rd(input, &mut p, 1);
            let x = rd(input, &mut p, n);
            out.push(x < z);
            wr(&mut out, x.wrapping_sub(z) & m, n)
        }
        ("negate", 1) => {
            let x = rd(input, &mut p, n);
            out.push(x != 0);
            wr(&mut out, x.wrapping_neg() & m, n)
        }
        ("multiply", 1) => {
            let x = rd(input, &mut p, n);
            let y = rd(input, &mut p, n);
            wr(&mut out, x * y, 2 * n)
        }
        ("full_multiply", 1) => {
            let x = rd(input, &mut p, n);
            let y = rd(input, &mut p, n);
            let z = rd(input, &mut p, n);
            let w = rd(input, &mut p, n);
            // (2^n-1)^2 + 2(2^n-1) = 2^(2n) - 1 : never overflows 2n bits
            wr(&mut out, x * y + z + w, 2 * n)
        }
        ("div_mod", 1) => {
            let x = rd(input, &mut p, n);
            let y = rd(input, &mut p, n);
            wr(&mut out, if y == 0 { 0 } else { x / y }, n);
            wr(&mut out, if y == 0 { x } else { x % y }, n)
        }
        ("divide", 1) => {
            let x = rd(input, &mut p, n);
            let y = rd(input, &mut p, n);
            wr(&mut out, if y == 0 { 0 } else { x / y }, n)
        }
        ("modulo", 1) => {
            let x = rd(input, &mut p, n);
            let y = rd(input, &mut p, n);
            wr(&mut out, if y == 0 { x } else { x % y }, n)
        }
        ("divides", 1) => {
            let x = rd(input, &mut p, n);
            let y = rd(input, &mut p, n);
            out.push(if x == 0 { y == 0 } else { y % x == 0 })
        }
        ("left_shift", 1) | ("right_shift", 1) | ("left_shift_with", 1) | ("right_shift_with", 1) => {
            let with = if base.ends_with("_with") { rd(input, &mut p, 1) == 1 } else { false };
            let amt = rd(input, &mut p, log_for(n)) as usize;
            let mut x = rd(input, &mut p, n);
            if with {
                x = !x & m;
            }
            x = if amt < n {
                if base.starts_with("left") { (x << amt) & m } else { x >> amt }
            } else {
                0
            };
            if with {
                x = !x & m;
            }
            wr(&mut out, x, n)
        }
        ("left_rotate", 1) | ("right_rotate", 1) => {
            let amt = (rd(input, &mut p, log_for(n)) as usize) % n;
            let x = rd(input, &mut p, n);
            let amt = if base.starts_with("left") { amt } else { (n - amt) % n };
            let r = if amt == 0 { x } else { ((x << amt) | (x >> (n - amt))) & m };
            wr(&mut out, r, n)
        }
        // two-number jets: name_N_M
        ("full_left_shift", 2) | ("full_right_shift", 2) => {
            // both are the identity on the bit string: (2^n * 2^m) -> (2^m * 2^n) regrouped
            out.extend_from_slice(&input[..nums[0] + nums[1]]);
        }
        ("leftmost", 2) => out.extend_from_slice(&input[..nums[1]]),
        ("rightmost", 2) => out.extend_from_slice(&input[nums[0] - nums[1]..nums[0]]),
        ("left_pad_low", 2) | ("left_pad_high", 2) | ("left_extend", 2) => {
            let (a, b) = (nums[0], nums[1]);
            let fill = match base.as_str() {
                "left_pad_low" => false,
                "left_pad_high" => true,
                _ => input[0],
            };
            out.extend(std::iter::repeat(fill).take(b - a));
            out.extend_from_slice(&input[..a]);
        }
        ("right_pad_low", 2) | ("right_pad_high", 2) | ("right_extend", 2) => {
            let (a, b) = (nums[0], nums[1]);
            let fill = match base.as_str() {
                "right_pad_low" => false,
                "right_pad_high" => true,
                _ => input[a - 1],
            };
            out.extend_from_slice(&input[..a]);
            out.extend(std::iter::repeat(fill).take(b - a));
        }
        _ => return None,
    }
    Some(Ok(out))
}
