//! M-eval: big-step evaluator of the AST on abstract values (Simplicity's denotational semantics).

use crate::ast::{Dag, Op, Typing};
use crate::bits;
use crate::mjets;
use crate::ty;
use crate::val::{self, V};

#[derive(Clone, Debug, PartialEq, Eq)]
pub enum Fail {
    /// an assertion reached its hidden side (the hidden CMR)
    Assert([u8; 32]),
    /// a fail node was reached (its entropy)
    FailNode([u8; 64]),
    /// a jet rejected its input
    Jet(String),
    /// the harness has no reference for this jet (not a verdict)
    NoModel(String),
    /// unpopulated witness or disconnect reached
    Hole(usize),
}

pub struct Evaluator<'a> {
    pub dag: &'a Dag,
    pub typing: &'a Typing,
    pub cmrs: &'a [[u8; 32]],
    /// how often each node was entered
    pub executed: Vec<u32>,
    /// per case/assert node: (left taken, right taken)
    pub sides: Vec<(bool, bool)>,
    pub steps: u64,
    pub max_steps: u64,
}

impl<'a> Evaluator<'a> {
    pub fn new(dag: &'a Dag, typing: &'a Typing, cmrs: &'a [[u8; 32]]) -> Self {
        Evaluator {
            dag,
            typing,
            cmrs,
            executed: vec![0; dag.len()],
            sides: vec![(false, false); dag.len()],
            steps: 0,
            max_steps: 5_000_000,
        }
    }

    pub fn run(&mut self, input: &V) -> Result<V, Fail> {
        self.eval(self.dag.root(), input)
    }

    fn eval(&mut self, i: usize, a: &V) -> Result<V, Fail> {
        self.executed[i] += 1;
        self.steps += 1;
        if self.steps > self.max_steps {
            return Err(Fail::NoModel("step budget".into()));
        }
        match &self.dag.nodes[i] {
            Op::Iden => Ok(a.clone()),
            Op::Unit => Ok(V::Unit),
            Op::InjL(c) => Ok(V::L(Box::new(self.eval(*c, a)?))),
            Op::InjR(c) => Ok(V::R(Box::new(self.eval(*c, a)?))),
            Op::Take(c) => match a {
                V::P(x, _) => self.eval(*c, x),
                _ => panic!("harness: take on non-product"),
            },
            Op::Drop(c) => match a {
                V::P(_, y) => self.eval(*c, y),
                _ => panic!("harness: drop on non-product"),
            },
            Op::Comp(l, r) => {
                let b = self.eval(*l, a)?;
                self.eval(*r, &b)
            }
            Op::Pair(l, r) => {
                let x = self.eval(*l, a)?;
                let y = self.eval(*r, a)?;
                Ok(V::P(Box::new(x), Box::new(y)))
            }
            Op::Case(l, r) => match a {
                V::P(s, c) => match &**s {
                    V::L(x) => {
                        self.sides[i].0 = true;
                        self.eval(*l, &V::P(x.clone(), c.clone()))
                    }
                    V::R(y) => {
                        self.sides[i].1 = true;
                        self.eval(*r, &V::P(y.clone(), c.clone()))
                    }
                    _ => panic!("harness: case on non-sum"),
                },
                _ => panic!("harness: case on non-product"),
            },
            Op::AssertL(l, h) => match a {
                V::P(s, c) => match &**s {
                    V::L(x) => {
                        self.sides[i].0 = true;
                        self.eval(*l, &V::P(x.clone(), c.clone()))
                    }
                    V::R(_) => Err(Fail::Assert(*h)),
                    _ => panic!("harness: assertl on non-sum"),
                },
                _ => panic!("harness: assertl on non-product"),
            },
            Op::AssertR(h, r) => match a {
                V::P(s, c) => match &**s {
                    V::R(y) => {
                        self.sides[i].1 = true;
                        self.eval(*r, &V::P(y.clone(), c.clone()))
                    }
                    V::L(_) => Err(Fail::Assert(*h)),
                    _ => panic!("harness: assertr on non-sum"),
                },
                _ => panic!("harness: assertr on non-product"),
            },
            Op::Disconnect(l, r) => {
                let r = r.ok_or(Fail::Hole(i))?;
                let cmr_bits = bits::bits_of_bytes(&self.cmrs[r]);
                let (w, _) = val::decode_compact(&cmr_bits, &ty::word(8)).expect("harness: 256 bits");
                let bc = self.eval(*l, &V::P(Box::new(w), Box::new(a.clone())))?;
                match bc {
                    V::P(b, c) => {
                        let d = self.eval(r, &c)?;
                        Ok(V::P(b, Box::new(d)))
                    }
                    _ => panic!("harness: disconnect left result is not a product"),
                }
            }
            Op::Witness(w) => match w {
                Some(w) => Ok(self.dag.witness[*w].0.clone()),
                None => Err(Fail::Hole(i)),
            },
            Op::Fail(e) => Err(Fail::FailNode(*e)),
            Op::Word(n, packed) => {
                let b = bits::bits_of_bytes(packed);
                let (v, _) = val::decode_compact(&b[..1usize << n], &ty::word(*n as usize)).expect("harness: word bits");
                Ok(v)
            }
            Op::Jet(j) => {
                let (s, t) = &self.typing[i];
                let inb = val::compact_vec(a, s);
                match mjets::eval(&j.name(), &inb) {
                    None => Err(Fail::NoModel(j.name())),
                    Some(Err(())) => Err(Fail::Jet(j.name())),
                    Some(Ok(outb)) => {
                        let (v, used) = val::decode_compact(&outb, t).expect("harness: jet model output too short");
                        assert_eq!(used, outb.len(), "harness: jet model output length for {}", j.name());
                        Ok(v)
                    }
                }
            }
        }
    }
}
