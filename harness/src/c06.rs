//! C06 — the Rust Bit Machine and the C evaluator reach the same verdict.

use crate::ast::{self, Dag, JetRef, Op};
use crate::bits;
use crate::c01;
use crate::cffi::{self, After};
use crate::gen::{self, Family};
use crate::prog::{self, Root};
use crate::rng::{hash_bytes, Rng};
use crate::runner::{guard, violated, Case, Ctx, Outcome, Plan};
use crate::txgen::{self, TxSpec};
use crate::ty::{self, Kind, T};
use crate::val::{self, V};
use simplicity::bit_machine::ExecutionError;
use simplicity::elements::secp256k1_zkp as secp;
use simplicity::node::RedeemNode;
use std::sync::Arc;

#[derive(Debug, Clone, Copy, PartialEq, Eq)]
pub enum Verdict {
    Ok,
    Assert,
    Jet,
    FailNode,
    Other,
}

pub fn rust_verdict(r: &Result<simplicity::Value, ExecutionError>) -> Verdict {
    match r {
        Ok(_) => Verdict::Ok,
        Err(ExecutionError::ReachedPrunedBranch(_)) => Verdict::Assert,
        Err(ExecutionError::JetFailed(_)) => Verdict::Jet,
        Err(ExecutionError::ReachedFailNode(_)) => Verdict::FailNode,
        Err(_) => Verdict::Other,
    }
}

pub fn c_verdict(e: i32) -> Option<Verdict> {
    match e {
        0 => Some(Verdict::Ok),
        -40 => Some(Verdict::Assert),
        -38 => Some(Verdict::Jet),
        _ => None,
    }
}

/// Run (program, env) on both evaluators and compare. `Ok(None)` = inconclusive (C-side limit).
pub fn compare_exec(redeem: &Arc<RedeemNode>, env: &txgen::Env, what: &str, case: &Case) -> Result<Option<Verdict>, (String, String)> {
    let (p, w) = redeem.to_vec_with_witness();
    let inp = || format!("{} ; program {} witness {}", what, crate::runner::truncate(&bits::fmt_bytes(&p), 500), crate::runner::truncate(&bits::fmt_bytes(&w), 300));
    let (rres, st) = match guard(|| prog::run_machine(redeem, None, env)) {
        Ok(Ok(x)) => x,
        Ok(Err(e)) => {
            // the Rust machine refused for its own limits
            case.count("rust-limit");
            let _ = e;
            return Ok(None);
        }
        Err(pn) => return Err(("panic:exec".into(), format!("{} ; {}", pn, inp()))),
    };
    if st.frame_oob != 0 {
        return Err(("frame-oob".into(), format!("{} out-of-frame accesses ; {}", st.frame_oob, inp())));
    }
    let rv = rust_verdict(&rres);
    let c = cffi::run_c(&p, &w, After::Eval { flags: cffi::CHECK_NONE, env: Some(env.c_tx_env()) });
    if c.err != 0 {
        if matches!(c.err, -1 | -36 | -34) {
            case.count(&format!("c-limit.{}", cffi::err_name(c.err)));
            return Ok(None);
        }
        return Err((format!("c-rejects-program:{}", cffi::err_name(c.err)), format!("C fails at stage `{}` with {} on a program Rust built and ran ; {}", c.stage, cffi::err_name(c.err), inp())));
    }
    let ce = c.eval.expect("eval requested");
    match c_verdict(ce) {
        Some(cv) => {
            if cv != rv {
                return Err((format!("verdict-differs:rust-{:?}:c-{:?}", rv, cv), format!("Rust: {} ; C: {} ; {}", match &rres { Ok(_) => "Ok".to_string(), Err(e) => e.to_string() }, cffi::err_name(ce), inp())));
            }
            case.count(&format!("agree.{:?}", rv));
            Ok(Some(rv))
        }
        None => {
            if matches!(ce, -1 | -36 | -34) {
                case.count(&format!("c-limit.{}", cffi::err_name(ce)));
                Ok(None)
            } else {
                Err((format!("c-eval-unexpected:{}", cffi::err_name(ce)), format!("C evaluation returned {} ({}) ; Rust: {:?} ; {}", ce, cffi::err_name(ce), rv, inp())))
            }
        }
    }
}

/// Values that make jets do something: small indices, valid curve points, valid signatures.
pub fn plausible_value(rng: &mut Rng, t: &T, spec: &TxSpec) -> V {
    let word_val = |bytes: &[u8], n: usize| val::decode_compact(&bits::bits_of_bytes(bytes), &ty::word(n)).unwrap().0;
    if let Some(n) = t.as_word() {
        match n {
            5 if rng.chance(3, 4) => {
                let k = *rng.pick(&[0u32, 1, 2, spec.ins.len() as u32 - 1, spec.ins.len() as u32, spec.outs.len() as u32, spec.outs.len().saturating_sub(1) as u32, u32::MAX, spec.ix]);
                return word_val(&k.to_be_bytes(), 5);
            }
            8 if rng.chance(1, 2) => return word_val(&txgen::curve_x(rng), 8),
            _ => {}
        }
    }
    match &t.kind {
        Kind::Unit => V::Unit,
        Kind::Sum(a, b) => {
            if rng.bool() {
                V::L(Box::new(plausible_value(rng, a, spec)))
            } else {
                V::R(Box::new(plausible_value(rng, b, spec)))
            }
        }
        Kind::Prod(a, b) if t.as_word().is_none() || rng.chance(1, 3) => V::P(Box::new(plausible_value(rng, a, spec)), Box::new(plausible_value(rng, b, spec))),
        _ => match rng.below(6) {
            0 => val::zero_val(t),
            1 => val::ones_val(t),
            _ => val::gen_val(rng, t),
        },
    }
}

thread_local! {
    static SECP: secp::Secp256k1<secp::All> = secp::Secp256k1::new();
}

/// A valid BIP-340 (pubkey, message, signature) triple as 32+32+64 bytes.
pub fn valid_bip340(rng: &mut Rng) -> ([u8; 32], [u8; 32], [u8; 64]) {
    loop {
        let mut sk = [0u8; 32];
        rng.fill(&mut sk);
        if let Ok(kp) = SECP.with(|s| secp::Keypair::from_seckey_slice(s, &sk)) {
            let mut msg = [0u8; 32];
            rng.fill(&mut msg);
            let m = secp::Message::from_digest(msg);
            let sig = SECP.with(|s| s.sign_schnorr_no_aux_rand(&m, &kp));
            let (xo, _) = kp.x_only_public_key();
            return (xo.serialize(), msg, *sig.as_ref());
        }
    }
}

/// 1 -> 1 wrapper around one jet: comp (comp witness[v] jet) unit
pub fn jet_wrapper(j: JetRef, v: V) -> Dag {
    let mut d = Dag::default();
    d.witness.push((v, j.source()));
    let w = d.push(Op::Witness(Some(0)));
    let jn = d.push(Op::Jet(j));
    let c = d.push(Op::Comp(w, jn));
    let u = d.push(Op::Unit);
    d.push(Op::Comp(c, u));
    d
}

pub fn build_program(dag: &Dag, rng: &mut Rng) -> Result<Arc<RedeemNode>, String> {
    let wits = prog::witness_values(dag, rng, false)?;
    let order = ast::natural_order(dag);
    prog::build_redeem(dag, &order, &wits, None, Root::Program)
}

pub fn run(ctx: &Ctx) {
    let t = ctx.tier;
    let jets = gen::jets_of(Family::Elements);
    let reps: u64 = t.pick(30, 120);
    // every Elements jet, several plausible inputs and environments
    ctx.run_sub("every-jet-wrapped", Plan::enumerate(jets.len() as u64 * reps, 0.45), |rng, case| {
        let ji = &jets[(case.idx % jets.len() as u64) as usize];
        let spec = txgen::gen_tx(rng, 4, 4);
        let env = match guard(|| txgen::build_env(&spec)) {
            Ok(e) => e,
            Err(pn) => return violated("panic:env-build", format!("{} ; {}", pn, txgen::describe(&spec))),
        };
        let name = ji.jet.name();
        let mut v = plausible_value(rng, &ji.src, &spec);
        // success paths of the signature jets
        if name == "bip_0340_verify" && rng.bool() {
            let (pk, msg, sig) = valid_bip340(rng);
            let mut b = pk.to_vec();
            b.extend(msg);
            b.extend(sig);
            v = val::decode_compact(&bits::bits_of_bytes(&b), &ji.src).unwrap().0;
        }
        let dag = jet_wrapper(ji.jet, v.clone());
        case.desc = format!("jet {} on {} ; {}", name, crate::runner::truncate(&val::show(&v), 200), txgen::describe(&spec));
        case.hash = Some(crate::rng::hash_str(&case.desc));
        let redeem = match guard(|| build_program(&dag, rng)) {
            Ok(Ok(r)) => r,
            Ok(Err(e)) => return violated("well-typed-program-rejected", format!("{} ; {}", e, dag.render())),
            Err(pn) => return violated("panic:build", pn),
        };
        match compare_exec(&redeem, &env, &case.desc.clone(), case) {
            Ok(Some(v)) => {
                case.count(&format!("jet.{}", name));
                case.count(&format!("jet-verdict.{:?}", v));
                Outcome::Held
            }
            Ok(None) => Outcome::Inconclusive("limit".into()),
            Err((sig, d)) => violated(format!("{}:{}", sig, name), d),
        }
    });
    ctx.run_sub("generated-programs", Plan::sample(t.pick(90_000, 800_000), 0.45), |rng, case| {
        let fuel = rng.urange(3, 18);
        let (dag, _) = match c01::make_program(rng, Family::Elements, fuel, false) {
            Ok(x) => x,
            Err(e) => return Outcome::Inconclusive(e),
        };
        if dag.nodes.iter().any(|o| matches!(o, Op::Disconnect(_, None) | Op::Fail(_))) {
            return Outcome::Trivial;
        }
        let spec = txgen::gen_tx(rng, 3, 3);
        let env = match guard(|| txgen::build_env(&spec)) {
            Ok(e) => e,
            Err(pn) => return violated("panic:env-build", format!("{} ; {}", pn, txgen::describe(&spec))),
        };
        case.desc = format!("{} ; {}", crate::runner::truncate(&dag.render(), 1500), txgen::describe(&spec));
        case.hash = Some(hash_bytes(case.desc.as_bytes()));
        let redeem = match guard(|| build_program(&dag, rng)) {
            Ok(Ok(r)) => r,
            Ok(Err(e)) => return violated("well-typed-program-rejected", format!("{} ; {}", e, dag.render())),
            Err(pn) => return violated("panic:build", pn),
        };
        match compare_exec(&redeem, &env, &case.desc.clone(), case) {
            Ok(Some(_)) => {
                if dag.len() >= 5 {
                    Outcome::Held
                } else {
                    Outcome::Trivial
                }
            }
            Ok(None) => Outcome::Inconclusive("limit".into()),
            Err((sig, d)) => violated(sig, d),
        }
    });
}
