//! M-bits: bit-list reference model of bit streams and of the self-delimiting natural code.
//! Written from the Simplicity specification; shares no code with src/bit_encoding.

use std::fmt::Write as _;

pub type Bits = Vec<bool>;

pub fn bits_of_bytes(bytes: &[u8]) -> Bits {
    let mut v = Vec::with_capacity(bytes.len() * 8);
    for b in bytes {
        for i in 0..8 {
            v.push((b >> (7 - i)) & 1 == 1);
        }
    }
    v
}

/// Pack bits MSB-first, zero padded to a byte boundary.
pub fn bytes_of_bits(bits: &[bool]) -> Vec<u8> {
    let mut out = vec![0u8; bits.len().div_ceil(8)];
    for (i, b) in bits.iter().enumerate() {
        if *b {
            out[i / 8] |= 1 << (7 - (i % 8));
        }
    }
    out
}

pub fn bits_str(bits: &[bool]) -> String {
    let mut s = String::with_capacity(bits.len());
    for b in bits {
        s.push(if *b { '1' } else { '0' });
    }
    s
}

pub fn push_uint(bits: &mut Bits, value: u64, len: usize) {
    for i in (0..len).rev() {
        bits.push((value >> i) & 1 == 1);
    }
}

/// Specification: ⌜1⌝ = 0 ; ⌜n⌝ = 1 · ⌜len⌝ · (low `len` bits of n), len = ⌊log2 n⌋ ≥ 1.
pub fn encode_natural(n: u64, out: &mut Bits) {
    assert!(n >= 1);
    if n == 1 {
        out.push(false);
    } else {
        let len = 63 - n.leading_zeros() as usize;
        out.push(true);
        encode_natural(len as u64, out);
        push_uint(out, n & ((1u64 << len) - 1), len);
    }
}

pub fn natural_bits(n: u64) -> Bits {
    let mut b = Vec::new();
    encode_natural(n, &mut b);
    b
}

#[derive(Clone, Debug, PartialEq, Eq)]
pub enum NatDecode {
    /// value, number of bits consumed
    Ok(u64, usize),
    /// the number (or one of its nested lengths) cannot be a 31-bit-length natural
    Overflow,
    /// the stream ended first
    Eof,
}

/// Reference decoder on a bit list. Limits as in the library's contract: every nested length is
/// at most 31, so values are below 2^32.
pub fn decode_natural(bits: &[bool]) -> NatDecode {
    fn go(bits: &[bool], pos: &mut usize, top: bool) -> Result<u64, NatDecode> {
        let b = *bits.get(*pos).ok_or(NatDecode::Eof)?;
        *pos += 1;
        if !b {
            return Ok(1);
        }
        let len = go(bits, pos, false)?;
        if len > 31 {
            return Err(NatDecode::Overflow);
        }
        let _ = top;
        let mut n = 1u64;
        for _ in 0..len {
            let b = *bits.get(*pos).ok_or(NatDecode::Eof)?;
            *pos += 1;
            n = 2 * n + u64::from(b);
        }
        Ok(n)
    }
    let mut pos = 0;
    match go(bits, &mut pos, true) {
        Ok(n) => NatDecode::Ok(n, pos),
        Err(e) => e,
    }
}

/// Model of a bit writer: everything written so far, as a bit list.
#[derive(Default, Clone, Debug)]
pub struct WriterModel {
    pub bits: Bits,
}

impl WriterModel {
    pub fn bytes(&self) -> Vec<u8> {
        bytes_of_bits(&self.bits)
    }
}

pub fn fmt_bytes(b: &[u8]) -> String {
    let mut s = String::new();
    for x in b {
        let _ = write!(s, "{:02x}", x);
    }
    s
}
