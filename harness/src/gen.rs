//! G-prog (well-typed, type-directed) and G-dag (arbitrary) program generators.

use crate::ast::{self, Dag, JetRef, Op};
use crate::bits;
use crate::mjets;
use crate::rng::Rng;
use crate::ty::{self, Kind, TyParams, T};
use crate::val::{self, V};
use simplicity::jet::{Core, Elements};
use std::collections::HashMap;

#[derive(Clone, Copy, Debug, PartialEq, Eq)]
pub enum Family {
    None,
    Core,
    Elements,
}

#[derive(Clone)]
pub struct JetInfo {
    pub jet: JetRef,
    pub src: T,
    pub tgt: T,
    pub modelled: bool,
}

thread_local! {
    static CORE_JETS: Vec<JetInfo> = Core::ALL.iter().map(|j| {
        let jr = JetRef::Core(*j);
        let src = jr.source();
        let modelled = src.width <= 4096 && !src.has_padding && mjets::eval(&jr.name(), &vec![true; src.width]).is_some();
        JetInfo { jet: jr, tgt: jr.target(), src, modelled }
    }).collect();
    static ELEMENTS_JETS: Vec<JetInfo> = Elements::ALL.iter().map(|j| {
        let jr = JetRef::Elements(*j);
        JetInfo { jet: jr, src: jr.source(), tgt: jr.target(), modelled: false }
    }).collect();
}

/// Set by the worker for interpreter passes: generators then use no jets at all (the jet tables are
/// expensive to build under an interpreter and executing a jet would call into C).
pub static NO_JETS: std::sync::atomic::AtomicBool = std::sync::atomic::AtomicBool::new(false);

pub fn jets_of(f: Family) -> Vec<JetInfo> {
    if NO_JETS.load(std::sync::atomic::Ordering::Relaxed) {
        return vec![];
    }
    match f {
        Family::None => vec![],
        Family::Core => CORE_JETS.with(|v| v.clone()),
        Family::Elements => ELEMENTS_JETS.with(|v| v.clone()),
    }
}

#[derive(Clone, Debug)]
pub struct GenParams {
    pub fuel: usize,
    pub family: Family,
    /// only jets with a harness reference model (C05)
    pub modelled_only: bool,
    pub witness: bool,
    pub disconnect: bool,
    pub asserts: bool,
    pub fail: bool,
    /// percent chance to reuse an existing node of the same arrow (pointer sharing)
    pub share_pct: u64,
    /// percent chance to clone an existing sub-DAG (structural duplicate)
    pub dup_pct: u64,
    /// bias towards comp/disconnect nesting (C07)
    pub nest_bias: bool,
    pub mid: TyParams,
    /// jets whose types are at most this wide may be routed to
    pub max_jet_width: usize,
}

impl GenParams {
    pub fn basic(fuel: usize) -> Self {
        GenParams {
            fuel,
            family: Family::None,
            modelled_only: false,
            witness: true,
            disconnect: true,
            asserts: true,
            fail: true,
            share_pct: 12,
            dup_pct: 6,
            nest_bias: false,
            mid: TyParams { max_width: 40, max_depth: 3, max_word_n: 4 },
            max_jet_width: 600,
        }
    }
}

pub struct ProgGen<'r> {
    pub rng: &'r mut Rng,
    pub dag: Dag,
    pub p: GenParams,
    pool: HashMap<(u64, u64), Vec<usize>>,
    jets: Vec<JetInfo>,
    jets_exact: HashMap<(u64, u64), Vec<usize>>,
    /// intended arrow of every node (the generator's own typing; the principal typing may be more general)
    pub intended: Vec<(T, T)>,
    pub contains_wd: Vec<bool>,
}

impl<'r> ProgGen<'r> {
    pub fn new(rng: &'r mut Rng, p: GenParams) -> Self {
        let mut jets = jets_of(p.family);
        if p.modelled_only {
            jets.retain(|j| j.modelled);
        }
        jets.retain(|j| j.src.width <= p.max_jet_width && j.tgt.width <= p.max_jet_width);
        let mut jets_exact: HashMap<(u64, u64), Vec<usize>> = HashMap::new();
        for (i, j) in jets.iter().enumerate() {
            jets_exact.entry((j.src.ident(), j.tgt.ident())).or_default().push(i);
        }
        ProgGen { rng, dag: Dag::default(), p, pool: HashMap::new(), jets, jets_exact, intended: Vec::new(), contains_wd: Vec::new() }
    }

    fn push(&mut self, op: Op, a: &T, b: &T) -> usize {
        let (c1, c2) = op.children();
        let wd = matches!(op, Op::Witness(_) | Op::Disconnect(..)) || c1.map(|c| self.contains_wd[c]).unwrap_or(false) || c2.map(|c| self.contains_wd[c]).unwrap_or(false);
        let i = self.dag.push(op);
        self.intended.push((a.clone(), b.clone()));
        self.contains_wd.push(wd);
        self.pool.entry((a.ident(), b.ident())).or_default().push(i);
        i
    }

    fn witness_node(&mut self, a: &T, b: &T) -> usize {
        let v = match self.rng.below(6) {
            0 => val::zero_val(b),
            1 => val::ones_val(b),
            _ => val::gen_val(self.rng, b),
        };
        self.dag.witness.push((v, b.clone()));
        let w = self.dag.witness.len() - 1;
        self.push(Op::Witness(Some(w)), a, b)
    }

    /// Clone the sub-DAG rooted at `i` as fresh node objects (structural duplicate).
    fn duplicate(&mut self, i: usize) -> usize {
        let sub = {
            let mut keep = vec![false; i + 1];
            keep[i] = true;
            for k in (0..=i).rev() {
                if keep[k] {
                    let (a, b) = self.dag.nodes[k].children();
                    for c in [a, b].into_iter().flatten() {
                        keep[c] = true;
                    }
                }
            }
            keep
        };
        if sub.iter().filter(|b| **b).count() > 40 {
            return i;
        }
        let mut map = vec![usize::MAX; i + 1];
        for k in 0..=i {
            if sub[k] {
                let mut op = ast::remap(&self.dag.nodes[k], &map);
                if let Op::Witness(Some(w)) = op {
                    // a fresh witness slot with an equal value (so that identity hashes coincide)
                    let wv = self.dag.witness[w].clone();
                    self.dag.witness.push(wv);
                    op = Op::Witness(Some(self.dag.witness.len() - 1));
                }
                let (a, b) = self.intended[k].clone();
                map[k] = self.push(op, &a, &b);
            }
        }
        map[i]
    }

    fn mid_type(&mut self, a: &T, b: &T) -> T {
        let r = self.rng.below(10);
        let pick_sub = |rng: &mut Rng, t: &T| -> T {
            let mut cur = t.clone();
            for _ in 0..rng.usize_below(3) {
                let next = match &cur.kind {
                    Kind::Sum(x, y) | Kind::Prod(x, y) => {
                        if rng.bool() { x.clone() } else { y.clone() }
                    }
                    Kind::Unit => break,
                };
                cur = next;
            }
            cur
        };
        let m = match r {
            0 => a.clone(),
            1 => b.clone(),
            2 => ty::prod(a.clone(), b.clone()),
            3 => pick_sub(self.rng, a),
            4 => pick_sub(self.rng, b),
            5 => ty::sum(pick_sub(self.rng, a), pick_sub(self.rng, b)),
            _ => ty::gen_ty(self.rng, &self.p.mid.clone()),
        };
        if m.width > 4 * self.p.mid.max_width + a.width.max(b.width) {
            ty::gen_ty(self.rng, &self.p.mid.clone())
        } else {
            m
        }
    }

    /// A constant expression a -> b producing `v` (unit / injl / injr / pair, words where possible).
    pub fn constant(&mut self, a: &T, b: &T, v: &V) -> usize {
        if let (Some(n), true) = (b.as_word(), self.rng.chance(3, 4)) {
            if n <= 9 {
                let packed = bits::bytes_of_bits(&val::compact_vec(v, b));
                let u = ty::unit();
                let w = self.push(Op::Word(n as u8, packed), &u, b);
                if a.is_unit() {
                    return w;
                }
                let un = self.push(Op::Unit, a, &u);
                return self.push(Op::Comp(un, w), a, b);
            }
        }
        match (v, &b.kind) {
            (V::Unit, Kind::Unit) => self.push(Op::Unit, a, b),
            (V::L(x), Kind::Sum(b1, _)) => {
                let c = self.constant(a, b1, x);
                self.push(Op::InjL(c), a, b)
            }
            (V::R(x), Kind::Sum(_, b2)) => {
                let c = self.constant(a, b2, x);
                self.push(Op::InjR(c), a, b)
            }
            (V::P(x, y), Kind::Prod(b1, b2)) => {
                let l = self.constant(a, b1, x);
                let r = self.constant(a, b2, y);
                self.push(Op::Pair(l, r), a, b)
            }
            _ => panic!("harness: constant ill-typed"),
        }
    }

    fn close(&mut self, a: &T, b: &T) -> usize {
        // out of fuel: the cheapest expression of this arrow
        if a == b && self.rng.chance(2, 3) {
            return self.push(Op::Iden, a, b);
        }
        if b.is_unit() {
            return self.push(Op::Unit, a, b);
        }
        if self.p.witness && (b.tree_size > 24 || self.rng.chance(1, 3)) {
            return self.witness_node(a, b);
        }
        if b.tree_size > 600 {
            // big constant: words
            let v = val::gen_val(self.rng, b);
            return self.constant(a, b, &v);
        }
        let v = val::gen_val(self.rng, b);
        self.constant(a, b, &v)
    }

    pub fn gen(&mut self, a: &T, b: &T, fuel: usize) -> usize {
        // sharing
        if let Some(v) = self.pool.get(&(a.ident(), b.ident())) {
            if !v.is_empty() {
                if self.rng.chance(self.p.share_pct, 100) {
                    let v = v.clone();
                    return *self.rng.pick(&v);
                }
                if self.rng.chance(self.p.dup_pct, 100) {
                    let v = v.clone();
                    let i = *self.rng.pick(&v);
                    return self.duplicate(i);
                }
            }
        }
        if fuel == 0 {
            return self.close(a, b);
        }
        // candidate rules with weights
        let mut cand: Vec<(u8, u32)> = Vec::new();
        let nb = self.p.nest_bias;
        if a == b {
            cand.push((0, 6));
        }
        if b.is_unit() {
            cand.push((1, 6));
        }
        if b.as_sum().is_some() {
            cand.push((2, 14));
        }
        if b.as_prod().is_some() {
            cand.push((3, 16));
        }
        if a.as_prod().is_some() {
            cand.push((4, 18));
        }
        if let Some((s, _)) = a.as_prod() {
            if s.as_sum().is_some() {
                cand.push((5, 30));
                if self.p.asserts {
                    cand.push((6, 6));
                }
            }
        }
        cand.push((7, if nb { 45 } else { 16 })); // comp
        if self.p.witness {
            cand.push((8, 5));
        }
        if self.p.disconnect && b.as_prod().is_some() {
            cand.push((9, if nb { 14 } else { 5 }));
        }
        if self.p.fail {
            cand.push((10, 1));
        }
        if !self.jets.is_empty() {
            if self.jets_exact.contains_key(&(a.ident(), b.ident())) {
                cand.push((11, 40));
            }
            cand.push((12, 10));
        }
        if b.as_word().map(|n| n <= 9).unwrap_or(false) {
            cand.push((13, 6));
        }
        let weights: Vec<u32> = cand.iter().map(|c| c.1).collect();
        let rule = cand[self.rng.weighted(&weights)].0;
        let f = fuel - 1;
        match rule {
            0 => self.push(Op::Iden, a, b),
            1 => self.push(Op::Unit, a, b),
            2 => {
                let (b1, b2) = b.as_sum().map(|(x, y)| (x.clone(), y.clone())).unwrap();
                if self.rng.bool() {
                    let c = self.gen(a, &b1, f);
                    self.push(Op::InjL(c), a, b)
                } else {
                    let c = self.gen(a, &b2, f);
                    self.push(Op::InjR(c), a, b)
                }
            }
            3 => {
                let (b1, b2) = b.as_prod().map(|(x, y)| (x.clone(), y.clone())).unwrap();
                let l = self.gen(a, &b1, f / 2);
                let r = self.gen(a, &b2, f - f / 2);
                self.push(Op::Pair(l, r), a, b)
            }
            4 => {
                let (a1, a2) = a.as_prod().map(|(x, y)| (x.clone(), y.clone())).unwrap();
                if self.rng.bool() {
                    let c = self.gen(&a1, b, f);
                    self.push(Op::Take(c), a, b)
                } else {
                    let c = self.gen(&a2, b, f);
                    self.push(Op::Drop(c), a, b)
                }
            }
            5 | 6 => {
                let (s, c) = a.as_prod().map(|(x, y)| (x.clone(), y.clone())).unwrap();
                let (a1, a2) = s.as_sum().map(|(x, y)| (x.clone(), y.clone())).unwrap();
                let la = ty::prod(a1, c.clone());
                let ra = ty::prod(a2, c);
                if rule == 5 {
                    // branches of unequal size
                    let fl = if self.rng.bool() { f / 4 } else { f - f / 4 };
                    let l = self.gen(&la, b, fl);
                    let r = self.gen(&ra, b, f - fl.min(f));
                    self.push(Op::Case(l, r), a, b)
                } else {
                    let h = self.hidden_hash(&la, &ra, b);
                    if self.rng.bool() {
                        let l = self.gen(&la, b, f);
                        self.push(Op::AssertL(l, h), a, b)
                    } else {
                        let r = self.gen(&ra, b, f);
                        self.push(Op::AssertR(h, r), a, b)
                    }
                }
            }
            7 => {
                let m = self.mid_type(a, b);
                let l = self.gen(a, &m, f / 2);
                let r = self.gen(&m, b, f - f / 2);
                self.push(Op::Comp(l, r), a, b)
            }
            8 => self.witness_node(a, b),
            9 => {
                // disconnect(l : 2^256 * a -> b1 * c, r : c -> d), b = b1 * d
                let (b1, d) = b.as_prod().map(|(x, y)| (x.clone(), y.clone())).unwrap();
                let c = self.mid_type(a, &d);
                let ls = ty::prod(ty::word(8), a.clone());
                let lt = ty::prod(b1, c.clone());
                let l = self.gen(&ls, &lt, f / 2);
                let r = self.gen(&c, &d, f - f / 2);
                self.push(Op::Disconnect(l, Some(r)), a, b)
            }
            10 => {
                let mut e = [0u8; 64];
                self.rng.fill(&mut e);
                self.push(Op::Fail(e), a, b)
            }
            11 => {
                let idxs = self.jets_exact[&(a.ident(), b.ident())].clone();
                let j = self.jets[*self.rng.pick(&idxs)].clone();
                self.push(Op::Jet(j.jet), a, b)
            }
            12 => {
                // route through a random jet: a -> src, jet, tgt -> b
                let k = self.rng.usize_below(self.jets.len());
                let j = self.jets[k].clone();
                let pre = self.gen(a, &j.src, f / 3);
                let jn = self.push(Op::Jet(j.jet), &j.src, &j.tgt);
                let post = self.gen(&j.tgt, b, f / 3);
                let c1 = self.push(Op::Comp(pre, jn), a, &j.tgt);
                self.push(Op::Comp(c1, post), a, b)
            }
            _ => {
                let v = val::gen_val(self.rng, b);
                self.constant(a, b, &v)
            }
        }
    }

    fn hidden_hash(&mut self, _la: &T, _ra: &T, _b: &T) -> [u8; 32] {
        let mut h = [0u8; 32];
        self.rng.fill(&mut h);
        if self.rng.chance(1, 3) {
            // the CMR of a real (small) expression
            let mut r2 = self.rng.fork();
            let mut g = ProgGen::new(&mut r2, GenParams { fuel: 4, witness: false, disconnect: false, ..self.p.clone() });
            let a = ty::gen_ty(g.rng, &TyParams::small());
            let b = ty::gen_ty(g.rng, &TyParams::small());
            let root = g.gen(&a, &b, 4);
            let sub = g.dag.reachable_from(root);
            h = ast::cmrs(&sub)[sub.root()];
        }
        h
    }
}

/// Generate a program a -> b; returns the DAG restricted to what the root reaches.
pub fn gen_program(rng: &mut Rng, p: &GenParams, a: &T, b: &T) -> Dag {
    let mut g = ProgGen::new(rng, p.clone());
    let root = if p.fuel >= 2 && a.is_unit() && b.is_unit() && g.rng.chance(9, 10) {
        // a 1 -> 1 program would otherwise often be just `unit`
        let mut m = g.mid_type(a, b);
        if m.is_unit() {
            m = ty::gen_ty(g.rng, &p.mid);
        }
        let f = p.fuel - 1;
        let l = g.gen(a, &m, f / 2);
        let r = g.gen(&m, b, f - f / 2);
        g.push(Op::Comp(l, r), a, b)
    } else {
        g.gen(a, b, p.fuel)
    };
    let dag = g.dag.reachable_from(root);
    compact_witnesses(dag)
}

/// Drop witness-table entries no node refers to (after `reachable_from`).
pub fn compact_witnesses(mut dag: Dag) -> Dag {
    let mut map: HashMap<usize, usize> = HashMap::new();
    let mut table = Vec::new();
    for op in dag.nodes.iter_mut() {
        if let Op::Witness(Some(w)) = op {
            let nw = *map.entry(*w).or_insert_with(|| {
                table.push(dag.witness[*w].clone());
                table.len() - 1
            });
            *w = nw;
        }
    }
    dag.witness = table;
    dag
}

/// Give every reference to a node that contains a witness or disconnect node its own copy, so
/// that no witness/disconnect node is reachable along two paths (neither serialisation can
/// express that: the bit encoding writes such a node twice, the text parser refuses it).
/// Other sharing is kept. Witness table entries are duplicated along with the nodes.
pub fn unshare_wd(dag: &Dag) -> Dag {
    let n = dag.len();
    let mut has = vec![false; n];
    for i in 0..n {
        let (a, b) = dag.nodes[i].children();
        has[i] = matches!(dag.nodes[i], Op::Witness(_) | Op::Disconnect(..)) || a.map(|c| has[c]).unwrap_or(false) || b.map(|c| has[c]).unwrap_or(false);
    }
    fn copy(dag: &Dag, has: &[bool], i: usize, memo: &mut HashMap<usize, usize>, out: &mut Dag) -> usize {
        if !has[i] {
            if let Some(j) = memo.get(&i) {
                return *j;
            }
        }
        let (a, b) = dag.nodes[i].children();
        let na = a.map(|c| copy(dag, has, c, memo, out));
        let nb = b.map(|c| copy(dag, has, c, memo, out));
        let op = match &dag.nodes[i] {
            Op::InjL(_) => Op::InjL(na.unwrap()),
            Op::InjR(_) => Op::InjR(na.unwrap()),
            Op::Take(_) => Op::Take(na.unwrap()),
            Op::Drop(_) => Op::Drop(na.unwrap()),
            Op::AssertL(_, h) => Op::AssertL(na.unwrap(), *h),
            Op::AssertR(h, _) => Op::AssertR(*h, na.unwrap()),
            Op::Comp(..) => Op::Comp(na.unwrap(), nb.unwrap()),
            Op::Case(..) => Op::Case(na.unwrap(), nb.unwrap()),
            Op::Pair(..) => Op::Pair(na.unwrap(), nb.unwrap()),
            Op::Disconnect(..) => Op::Disconnect(na.unwrap(), nb),
            Op::Witness(Some(w)) => {
                out.witness.push(dag.witness[*w].clone());
                Op::Witness(Some(out.witness.len() - 1))
            }
            other => other.clone(),
        };
        let j = out.push(op);
        if !has[i] {
            memo.insert(i, j);
        }
        j
    }
    let mut out = Dag::default();
    let mut memo = HashMap::new();
    copy(dag, &has, dag.root(), &mut memo, &mut out);
    out
}

/// Replace every witness value by its projection onto the inferred (principal) target type.
pub fn retype_witnesses(dag: &mut Dag, typing: &ast::Typing) {
    for (i, op) in dag.nodes.clone().iter().enumerate() {
        if let Op::Witness(Some(w)) = op {
            let (v, t) = dag.witness[*w].clone();
            let target = &typing[i].1;
            if *target != t {
                let nv = val::prune_model(&v, &t, target).expect("harness: principal type is a pruning of the intended type");
                dag.witness[*w] = (nv, target.clone());
            }
        }
    }
}

// ------------------------------------------------------------------------------------------
// G-dag: arbitrary (possibly ill-typed) DAGs
// ------------------------------------------------------------------------------------------

pub fn gen_dag(rng: &mut Rng, n: usize, family: Family) -> Dag {
    let jets = jets_of(family);
    let mut dag = Dag::default();
    let pick = |rng: &mut Rng, len: usize| -> usize {
        if rng.chance(2, 3) {
            len - 1 - rng.usize_below(len.min(4))
        } else {
            rng.usize_below(len)
        }
    };
    while dag.len() < n {
        let len = dag.len();
        let op = if len == 0 || rng.chance(1, 5) {
            match rng.below(12) {
                0..=3 => Op::Iden,
                4..=6 => Op::Unit,
                7 => Op::Witness(None),
                8 => {
                    let nn = rng.below(6) as u8;
                    let bytes = rng.bytes(((1usize << nn) + 7) / 8);
                    let mut bytes = bytes;
                    if nn < 3 {
                        bytes[0] &= !(0xffu8 >> (1 << nn));
                    }
                    Op::Word(nn, bytes)
                }
                9 if !jets.is_empty() => {
                    let k = rng.usize_below(jets.len());
                    Op::Jet(jets[k].jet)
                }
                10 => {
                    let mut e = [0u8; 64];
                    rng.fill(&mut e);
                    Op::Fail(e)
                }
                _ => Op::Unit,
            }
        } else {
            let a = pick(rng, len);
            let b = pick(rng, len);
            match rng.below(14) {
                0 => Op::InjL(a),
                1 => Op::InjR(a),
                2 => Op::Take(a),
                3 => Op::Drop(a),
                4 | 5 => Op::Comp(a, b),
                6 | 7 => Op::Case(a, b),
                8 | 9 => Op::Pair(a, b),
                10 => {
                    let mut h = [0u8; 32];
                    rng.fill(&mut h);
                    Op::AssertL(a, h)
                }
                11 => {
                    let mut h = [0u8; 32];
                    rng.fill(&mut h);
                    Op::AssertR(h, a)
                }
                12 => Op::Disconnect(a, Some(b)),
                _ => Op::Disconnect(a, None),
            }
        };
        dag.push(op);
    }
    let root = dag.root();
    dag.reachable_from(root)
}

/// Occurs-check seeds and sharing towers, parameterised by depth.
pub const SPECIAL_KINDS: u64 = 8;

pub fn special_dag(rng: &mut Rng, kind: u64, depth: usize) -> Dag {
    let mut d = Dag::default();
    match kind % SPECIAL_KINDS {
        6 => {
            // a doubling tower over a FREE type (witness / iden), then a clash: the error has to display a
            // deeply shared incomplete type
            let mut cur = d.push(if rng.bool() { Op::Witness(None) } else { Op::Iden });
            for _ in 0..depth.min(45) {
                cur = d.push(Op::Pair(cur, cur));
            }
            let u1 = d.push(Op::Unit);
            let u2 = d.push(Op::Unit);
            let clash = match rng.below(3) {
                0 => d.push(Op::Case(u1, u2)),
                1 => {
                    let j = d.push(Op::InjL(u1));
                    d.push(Op::Case(j, u2))
                }
                _ => d.push(Op::Word(3, vec![0xa5])),
            };
            // case needs (A+B)*C and gets a product whose first component is a product (clash) when depth >= 2;
            // the word needs source 1
            d.push(Op::Comp(cur, clash));
        }
        7 => {
            // a doubling tower whose bit width saturates (2^64 and beyond), then used inside a sum
            let base = d.push(Op::Unit);
            let mut cur = d.push(if rng.bool() { Op::InjL(base) } else { Op::Word(0, vec![0x80]) });
            let n = 55 + depth % 16;
            for _ in 0..n {
                cur = d.push(Op::Pair(cur, cur));
            }
            cur = match rng.below(3) {
                0 => d.push(Op::InjL(cur)),
                1 => d.push(Op::InjR(cur)),
                _ => {
                    let j = d.push(Op::InjR(cur));
                    d.push(Op::Pair(j, cur))
                }
            };
            let u = d.push(Op::Unit);
            d.push(Op::Comp(cur, u));
        }
        0 => {
            // case (drop iden) iden  wrapped `depth` times
            let i1 = d.push(Op::Iden);
            let dr = d.push(Op::Drop(i1));
            let i2 = d.push(Op::Iden);
            let mut cur = d.push(Op::Case(dr, i2));
            for _ in 0..depth {
                cur = match rng.below(4) {
                    0 => d.push(Op::InjL(cur)),
                    1 => d.push(Op::Take(cur)),
                    2 => d.push(Op::Drop(cur)),
                    _ => d.push(Op::InjR(cur)),
                };
            }
        }
        1 => {
            // disconnect iden iden
            let i1 = d.push(Op::Iden);
            let i2 = d.push(Op::Iden);
            let mut cur = d.push(Op::Disconnect(i1, Some(i2)));
            for _ in 0..depth {
                cur = d.push(Op::Take(cur));
            }
        }
        2 => {
            // pair tower: x_{k+1} = pair x_k x_k : types double
            let mut cur = d.push(if rng.bool() { Op::Iden } else { Op::Unit });
            if rng.bool() {
                cur = d.push(Op::InjL(cur));
            }
            for _ in 0..depth.min(40) {
                cur = d.push(Op::Pair(cur, cur));
            }
            let u = d.push(Op::Unit);
            d.push(Op::Comp(cur, u));
        }
        3 => {
            // comp tower on iden: all types collapse to one variable
            let mut cur = d.push(Op::Iden);
            for _ in 0..depth {
                cur = d.push(Op::Comp(cur, cur));
            }
        }
        4 => {
            // comp x x where x : A -> A*A style occurs
            let i1 = d.push(Op::Iden);
            let i2 = d.push(Op::Iden);
            let p = d.push(Op::Pair(i1, i2));
            let mut cur = d.push(Op::Comp(p, p));
            for _ in 0..depth {
                cur = d.push(Op::InjL(cur));
            }
        }
        _ => {
            // take/drop chain then pair with itself (deep shared source type)
            let mut cur = d.push(Op::Iden);
            for _ in 0..depth {
                cur = if rng.bool() { d.push(Op::Take(cur)) } else { d.push(Op::Drop(cur)) };
            }
            let u = d.push(Op::Unit);
            let p = d.push(Op::Pair(cur, u));
            d.push(Op::Comp(p, u));
        }
    }
    d
}
