//! Library-side helpers: turn an AST into ConstructNode / CommitNode / RedeemNode, read arrows back,
//! run the Bit Machine with the observation hooks.

use crate::ast::{self, Dag, Op, Typing};
use crate::eval::Fail;
use crate::rng::Rng;
use crate::ty::{self, T};
use crate::val::{self, V};
use simplicity::bit_machine::ExecutionError;
use simplicity::jet::JetEnvironment;
use simplicity::node::{CommitNode, RedeemNode};
use simplicity::types::Context;
use simplicity::{BitMachine, Value};
use std::sync::Arc;

#[derive(Clone, Copy, Debug, PartialEq, Eq)]
pub enum Root {
    /// source and target forced to unit
    Program,
    /// left as inferred
    Free,
}

/// Library values for the witness table through a mix of histories.
pub fn witness_values(dag: &Dag, rng: &mut Rng, mixed: bool) -> Result<Vec<Option<Value>>, String> {
    let mut out = Vec::new();
    for (v, t) in &dag.witness {
        let h = if mixed { *rng.pick(&[0usize, 0, 1, 2, 3, 5, 6]) } else { 0 };
        out.push(Some(val::realise(h, v, t, rng)?));
    }
    Ok(out)
}

pub fn build_redeem(dag: &Dag, order: &[usize], wits: &[Option<Value>], pin: Option<(&T, &T)>, root: Root) -> Result<Arc<RedeemNode>, String> {
    Context::with_context(|ctx| {
        let inst = ast::instantiate(dag, &ctx, order, wits).map_err(|e| format!("constructor of node {} failed: {}", e.at, e.err))?;
        let r = inst.nodes[dag.root()].clone().unwrap();
        if let Some((s, t)) = pin {
            ast::pin_root(&ctx, &r, s, t).map_err(|e| format!("pinning root: {}", e))?;
        }
        if root == Root::Program {
            r.set_arrow_to_program().map_err(|e| format!("set_arrow_to_program: {}", e))?;
        }
        r.finalize_unpruned().map_err(|e| format!("finalize_unpruned: {}", e))
    })
}

pub fn build_commit(dag: &Dag, order: &[usize], pin: Option<(&T, &T)>, root: Root) -> Result<Arc<CommitNode>, String> {
    Context::with_context(|ctx| {
        let wits = vec![None; dag.witness.len()];
        let inst = ast::instantiate(dag, &ctx, order, &wits).map_err(|e| format!("constructor of node {} failed: {}", e.at, e.err))?;
        let r = inst.nodes[dag.root()].clone().unwrap();
        if let Some((s, t)) = pin {
            ast::pin_root(&ctx, &r, s, t).map_err(|e| format!("pinning root: {}", e))?;
        }
        match root {
            Root::Program => r.finalize_types().map_err(|e| format!("finalize_types: {}", e)),
            Root::Free => r.finalize_types_non_program().map_err(|e| format!("finalize_types_non_program: {}", e)),
        }
    })
}

#[derive(Debug)]
pub struct RunStats {
    pub hw_cells: usize,
    pub hw_frames: usize,
    pub frame_oob: u64,
    pub data_bits: usize,
    pub extra_cells: usize,
    pub extra_frames: usize,
    pub io_width: usize,
}

/// Run `program` on `input` (None for unit source). Returns the machine's verdict and the hook readings.
pub fn run_machine<JE: JetEnvironment>(program: &RedeemNode, input: Option<&Value>, env: &JE) -> Result<(Result<Value, ExecutionError>, RunStats), String> {
    let _ = BitMachine::verif_take_frame_oob();
    let mut mac = BitMachine::for_program(program).map_err(|e| format!("for_program: {}", e))?;
    if let Some(v) = input {
        mac.input(v).map_err(|e| format!("input: {}", e))?;
    }
    let res = mac.exec(program, env);
    let st = mac.verif_stats();
    let b = program.bounds();
    let stats = RunStats {
        hw_cells: st.hw_cells,
        hw_frames: st.hw_frames,
        frame_oob: BitMachine::verif_take_frame_oob(),
        data_bits: st.data_bits,
        extra_cells: b.extra_cells,
        extra_frames: b.extra_frames,
        io_width: program.arrow().source.bit_width() + program.arrow().target.bit_width(),
    };
    Ok((res, stats))
}

/// Compare the machine's verdict with the model's.
pub fn compare_verdict(model: &Result<V, Fail>, lib: &Result<Value, ExecutionError>, target: &T) -> Result<(), String> {
    match (model, lib) {
        (Ok(v), Ok(lv)) => val::denotes(lv, v, target).map_err(|e| format!("output differs from the semantics: {}", e)),
        (Err(Fail::Assert(h)), Err(ExecutionError::ReachedPrunedBranch(c))) if c.to_byte_array() == *h => Ok(()),
        (Err(Fail::FailNode(e)), Err(ExecutionError::ReachedFailNode(f))) if f.to_byte_array() == *e => Ok(()),
        (Err(Fail::Jet(_)), Err(ExecutionError::JetFailed(_))) => Ok(()),
        (m, l) => Err(format!(
            "semantics give {} ; machine gives {}",
            match m {
                Ok(v) => format!("Ok({})", crate::runner::truncate(&val::show(v), 200)),
                Err(f) => format!("{:?}", f),
            },
            match l {
                Ok(v) => format!("Ok({})", v),
                Err(e) => format!("Err({})", e),
            }
        )),
    }
}

/// Arrows of every node of a redeem program in post-order under pointer sharing, as harness types.
pub fn redeem_arrows(r: &RedeemNode) -> Vec<(T, T)> {
    use simplicity::dag::{DagLike, InternalSharing};
    r.post_order_iter::<InternalSharing>().map(|d| (ty::from_final(&d.node.arrow().source), ty::from_final(&d.node.arrow().target))).collect()
}

/// Map AST node index -> position in the library's pointer-sharing post-order of the instantiated DAG.
/// (The AST is instantiated one object per AST node, so the library's post-order from the root visits
/// exactly the AST's nodes; this computes the same order on the AST.)
pub fn ast_post_order(dag: &Dag) -> Vec<usize> {
    ast_post_order_mode(dag, false)
}

/// `commit`: disconnect nodes have no right child (commitment-time DAG shape).
pub fn ast_post_order_mode(dag: &Dag, commit: bool) -> Vec<usize> {
    let mut order = Vec::new();
    let mut seen = vec![false; dag.len()];
    // iterative post-order, left child first
    let mut stack = vec![(dag.root(), false)];
    while let Some((n, done)) = stack.pop() {
        if seen[n] {
            continue;
        }
        if done {
            seen[n] = true;
            order.push(n);
            continue;
        }
        stack.push((n, true));
        let (a, mut b) = dag.nodes[n].children();
        if commit && matches!(dag.nodes[n], Op::Disconnect(..)) {
            b = None;
        }
        // disconnect: the library iterates (left, right) as well
        if let Some(b) = b {
            if !seen[b] {
                stack.push((b, false));
            }
        }
        if let Some(a) = a {
            if !seen[a] {
                stack.push((a, false));
            }
        }
    }
    order
}

pub fn typing_ok_or_harness(dag: &Dag, program: bool, pin: Option<(&T, &T)>) -> Result<Typing, String> {
    ast::infer(dag, program, pin).map_err(|e| format!("harness: generator produced an ill-typed program ({:?}): {}", e, dag.render()))
}

pub fn op_histogram(dag: &Dag, executed: &[u32], case: &crate::runner::Case) {
    for (i, op) in dag.nodes.iter().enumerate() {
        if executed[i] > 0 {
            case.count(&format!("executed.{}", op.name()));
            if let Op::Jet(j) = op {
                case.count(&format!("jet.{}", j.name()));
            }
        }
    }
}
