//! C20 — results are independent of threads and scheduling.
//!
//! A round builds a pool of items (programs with witness and transaction, policies with an
//! availability pattern, source texts, types with values), computes every operation's result
//! one at a time on the main thread, then lets T threads run a shuffled mix of the same
//! operations — on their own copies decoded from bytes and on the *shared* immutable objects
//! built by the main thread — and compares every result with the sequential one. An event log
//! (global sequence numbers at operation start and end) shows which operations actually
//! overlapped on the same shared object.

use crate::ast::{self, Dag, Op};
use crate::bits;
use crate::c06;
use crate::c16;
use crate::cffi::{self, After};
use crate::gen::{self, Family, GenParams};
use crate::prog::{self, Root};
use crate::rng::{hash_bytes, hash_str, Rng};
use crate::runner::{guard, truncate, violated, Case, Ctx, Outcome, Plan};
use crate::txgen::{self, TxSpec};
use crate::ty::{self, TyParams, T};
use crate::val::{self, V};
use simplicity::dag::{DagLike, InternalSharing};
use simplicity::human_encoding::Forest;
use simplicity::jet::Elements;
use simplicity::node::{CommitNode, RedeemNode};
use simplicity::types::{Context, Final};
use simplicity::{BitIter, Value};
use std::sync::atomic::{AtomicU64, AtomicUsize, Ordering};
use std::sync::{Arc, Mutex};

struct ProgItem {
    dag: Dag,
    wits: Vec<Option<Value>>,
    spec: TxSpec,
    pb: Vec<u8>,
    wb: Vec<u8>,
    commit_bytes: Vec<u8>,
    shared: Arc<RedeemNode>,
    shared_commit: Arc<CommitNode>,
}

struct PolItem {
    pol: c16::Pol,
    pools: c16::Pools,
    avail: c16::Avail,
    spec: TxSpec,
}

struct TyItem {
    t: T,
    v: V,
    shared_final: Arc<Final>,
    shared_value: Value,
}

enum Item {
    Prog(Box<ProgItem>),
    Pol(Box<PolItem>),
    Text(String),
    Ty(Box<TyItem>),
}

const PROG_OPS: &[&str] = &["decode", "exec-own", "exec-shared", "prune-shared", "infer", "human", "walk-shared", "c-pipeline", "nested-contexts"];
const POL_OPS: &[&str] = &["policy-cmr", "policy-satisfy", "policy-sort"];
const TEXT_OPS: &[&str] = &["parse"];
const TY_OPS: &[&str] = &["types", "values", "fresh-names"];

fn ops_of(it: &Item) -> &'static [&'static str] {
    match it {
        Item::Prog(_) => PROG_OPS,
        Item::Pol(_) => POL_OPS,
        Item::Text(_) => TEXT_OPS,
        Item::Ty(_) => TY_OPS,
    }
}

fn verdict_digest(r: &Result<Value, simplicity::bit_machine::ExecutionError>) -> String {
    match r {
        Ok(v) => format!("ok:{}", v.iter_compact().map(|b| if b { '1' } else { '0' }).collect::<String>()),
        Err(e) => format!("{:?}:{}", c06::rust_verdict(&Err::<Value, _>(clone_err(e))), e),
    }
}

fn clone_err(e: &simplicity::bit_machine::ExecutionError) -> simplicity::bit_machine::ExecutionError {
    use simplicity::bit_machine::ExecutionError as E;
    match e {
        E::InputWrongType(t) => E::InputWrongType(t.clone()),
        E::ReachedFailNode(x) => E::ReachedFailNode(*x),
        E::ReachedPrunedBranch(c) => E::ReachedPrunedBranch(*c),
        E::LimitExceeded(l) => E::LimitExceeded(l.clone()),
        E::JetFailed(j) => E::JetFailed(*j),
        E::JetTypeMismatch => E::JetTypeMismatch,
    }
}

fn redeem_digest(r: &RedeemNode) -> String {
    format!("{}|{}|{}|{:?}|{}", r.cmr(), r.ihr(), r.amr(), r.bounds(), r.arrow())
}

fn exec_digest(r: &RedeemNode, spec: &TxSpec) -> String {
    let env = txgen::build_env(spec);
    match prog::run_machine(r, None, &env) {
        Ok((res, st)) => format!("{} oob={} cells={} frames={}", verdict_digest(&res), st.frame_oob, st.hw_cells, st.hw_frames),
        Err(e) => format!("refused:{}", e),
    }
}

/// One operation on one item -> a digest that must not depend on where or when it runs.
fn run_op(it: &Item, op: &str) -> String {
    match it {
        Item::Prog(p) => match op {
            "decode" => match RedeemNode::decode::<_, _, Elements>(BitIter::from(&p.pb[..]), BitIter::from(&p.wb[..])) {
                Ok(r) => redeem_digest(&r),
                Err(_) => "decode-error".into(),
            },
            "exec-own" => match RedeemNode::decode::<_, _, Elements>(BitIter::from(&p.pb[..]), BitIter::from(&p.wb[..])) {
                Ok(r) => exec_digest(&r, &p.spec),
                Err(_) => "decode-error".into(),
            },
            "exec-shared" => exec_digest(&p.shared, &p.spec),
            "prune-shared" => {
                let env = txgen::build_env(&p.spec);
                match p.shared.prune(&env) {
                    Ok(q) => {
                        let (a, b) = q.to_vec_with_witness();
                        format!("pruned:{}:{}:{}", q.ihr(), hash_bytes(&a), hash_bytes(&b))
                    }
                    Err(e) => format!("prune-error:{}", e),
                }
            }
            "infer" => {
                let order = ast::natural_order(&p.dag);
                match prog::build_redeem(&p.dag, &order, &p.wits, None, Root::Program) {
                    Ok(r) => redeem_digest(&r),
                    Err(_) => "infer-error".into(),
                }
            }
            "human" => {
                let c = match CommitNode::decode::<_, Elements>(BitIter::from(&p.commit_bytes[..])) {
                    Ok(c) => c,
                    Err(_) => return "decode-error".into(),
                };
                let text = Forest::from_program(c).string_serialize();
                match Forest::parse::<Elements>(&text) {
                    Ok(f) => match f.roots().get("main") {
                        Some(m) => format!("{}|{}", m.cmr(), hash_bytes(&m.to_commit_node().to_vec_without_witness())),
                        None => "no-main".into(),
                    },
                    Err(_) => "parse-error".into(),
                }
            }
            "walk-shared" => {
                // clone / iterate / drop the shared DAGs (reference counts, iterative Drop)
                let a = Arc::clone(&p.shared);
                let b = Arc::clone(&p.shared_commit);
                let mut h = 0u64;
                for d in a.as_ref().post_order_iter::<InternalSharing>() {
                    h = crate::rng::mix(h, u64::from_le_bytes(d.node.cmr().to_byte_array()[..8].try_into().unwrap()));
                    let child = d.node.inner().as_dag();
                    let _ = child;
                }
                let mut n = 0;
                for d in b.as_ref().post_order_iter::<InternalSharing>() {
                    n += 1;
                    let _ = d.node.arrow().source.bit_width();
                }
                drop(a);
                drop(b);
                format!("{}:{}", h, n)
            }
            "c-pipeline" => {
                let env = txgen::build_env(&p.spec);
                let c = cffi::run_c(&p.pb, &p.wb, After::Eval { flags: cffi::CHECK_NONE, env: Some(env.c_tx_env()) });
                format!("{}|{}|{}|{}|{}|{:?}", c.err, bits::fmt_bytes(&c.analysis.cmr), bits::fmt_bytes(&c.analysis.ihr), bits::fmt_bytes(&c.analysis.amr), c.analysis.cost, c.eval)
            }
            "nested-contexts" => {
                // two inference contexts alive at once in one thread, finalised in the opposite order
                let order = ast::natural_order(&p.dag);
                Context::with_context(|c1| {
                    Context::with_context(|c2| {
                        let a = ast::instantiate(&p.dag, &c1, &order, &p.wits);
                        let b = ast::instantiate(&p.dag, &c2, &order, &p.wits);
                        match (a, b) {
                            (Ok(a), Ok(b)) => {
                                let (ra, rb) = (a.nodes[p.dag.root()].clone().unwrap(), b.nodes[p.dag.root()].clone().unwrap());
                                let fb = rb.set_arrow_to_program().ok().and_then(|_| rb.finalize_unpruned().ok());
                                let fa = ra.set_arrow_to_program().ok().and_then(|_| ra.finalize_unpruned().ok());
                                match (fa, fb) {
                                    (Some(fa), Some(fb)) => format!("{}|{}", redeem_digest(&fa), redeem_digest(&fb)),
                                    _ => "infer-error".into(),
                                }
                            }
                            _ => "infer-error".into(),
                        }
                    })
                })
            }
            _ => unreachable!(),
        },
        Item::Pol(p) => {
            let policy = c16::to_policy(&p.pol, &p.pools);
            match op {
                "policy-cmr" => format!("{}|{}", policy.cmr(), policy.commit().cmr()),
                "policy-sort" => format!("{}", policy.clone().sorted()),
                "policy-satisfy" => {
                    let mut spec = p.spec.clone();
                    spec.script_cmr = policy.cmr().to_byte_array();
                    let env = txgen::build_env(&spec);
                    let lt = c16::lock_truth(&spec);
                    match c16::satisfy_with(&policy, &p.pools, &p.avail, &lt, &env).0 {
                        Ok(prog) => {
                            let (a, b) = prog.to_vec_with_witness();
                            let run = prog::run_machine(&prog, None, &env).map(|(r, _)| verdict_digest(&r)).unwrap_or_else(|e| e);
                            format!("sat:{}:{}:{}:{}", prog.cmr(), hash_bytes(&a), hash_bytes(&b), run)
                        }
                        Err(e) => format!("unsat:{:?}", e),
                    }
                }
                _ => unreachable!(),
            }
        }
        Item::Text(t) => match Forest::parse::<Elements>(t) {
            Ok(f) => {
                let mut v: Vec<String> = f.roots().iter().map(|(k, n)| format!("{}={}", k, n.cmr())).collect();
                v.sort();
                v.join(",")
            }
            Err(e) => format!("errors:{}", e.to_string().lines().count()),
        },
        Item::Ty(t) => match op {
            "types" => {
                let f = ty::to_final(&t.t);
                // types built on another thread compare equal to those built here (thread-local precomputed tables)
                format!("{}|{}|eq={}|{}", f.tmr(), f.bit_width(), *f == *t.shared_final, t.shared_final.tmr())
            }
            "fresh-names" => {
                // free type variables get their names from a process-wide counter: within one context
                // every name must be new, whatever other threads are doing
                use simplicity::node::{ConstructNode, WitnessConstructible};
                Context::with_context(|ctx| {
                    let mut seen = std::collections::HashSet::new();
                    let mut keep = Vec::new();
                    for _ in 0..48 {
                        let w: Arc<ConstructNode> = WitnessConstructible::witness(&ctx, None);
                        let a = w.arrow();
                        for name in [format!("{}", a.source), format!("{}", a.target)] {
                            if !seen.insert(name.clone()) {
                                return format!("type variable name `{}` handed out twice in one context", name);
                            }
                        }
                        keep.push(w);
                    }
                    "96 fresh names, all distinct".to_string()
                })
            }
            "values" => {
                let mut tf = ty::ToFinal::new();
                let own = val::build_ctor(&t.v, &t.t, &mut tf);
                let (pb, pl) = {
                    let bits: Vec<bool> = t.shared_value.iter_padded().collect();
                    (bits::bytes_of_bits(&bits), bits.len())
                };
                let again = Value::from_padded_bits(&mut BitIter::from(&pb[..]), &t.shared_final);
                format!(
                    "{}|{}|{}|{}|{}",
                    own == t.shared_value,
                    own.is_of_type(&t.shared_final),
                    pl,
                    again.map(|a| a == t.shared_value).unwrap_or(false),
                    t.shared_value.iter_compact().map(|b| if b { '1' } else { '0' }).collect::<String>()
                )
            }
            _ => unreachable!(),
        },
    }
}

fn gen_prog_item(rng: &mut Rng) -> Option<ProgItem> {
    let fuel = rng.urange(3, 18);
    let p = GenParams { family: Family::Elements, fail: rng.chance(1, 4), share_pct: 20, dup_pct: 8, mid: TyParams { max_width: 30, max_depth: 4, max_word_n: 3 }, ..GenParams::basic(fuel) };
    let (a, b) = (ty::unit(), ty::unit());
    let dag = gen::gen_program(rng, &p, &a, &b);
    let mut dag = gen::unshare_wd(&dag);
    if dag.nodes.iter().any(|o| matches!(o, Op::Disconnect(_, None))) || dag.len() > 3000 {
        return None;
    }
    let typing = ast::infer(&dag, true, None).ok()?;
    gen::retype_witnesses(&mut dag, &typing);
    let wits = prog::witness_values(&dag, rng, false).ok()?;
    let order = ast::natural_order(&dag);
    let shared = prog::build_redeem(&dag, &order, &wits, None, Root::Program).ok()?;
    let shared_commit = prog::build_commit(&dag, &order, None, Root::Program).ok()?;
    let (pb, wb) = shared.to_vec_with_witness();
    let commit_bytes = shared_commit.to_vec_without_witness();
    let spec = txgen::gen_tx(rng, 3, 3);
    Some(ProgItem { dag, wits, spec, pb, wb, commit_bytes, shared, shared_commit })
}

fn gen_pool(rng: &mut Rng) -> Vec<Item> {
    let mut pool = Vec::new();
    let n_prog = rng.urange(3, 7);
    let mut tries = 0;
    while pool.len() < n_prog && tries < 40 {
        tries += 1;
        if let Some(p) = gen_prog_item(rng) {
            pool.push(Item::Prog(Box::new(p)));
        }
    }
    for _ in 0..rng.urange(1, 3) {
        let pools = c16::gen_pools(rng);
        let mut spec = txgen::gen_tx(rng, 2, 2);
        c16::tune_locks(rng, &mut spec);
        let lt = c16::lock_truth(&spec);
        let mut budget = rng.urange(3, 20);
        let pol = c16::gen_pol(rng, 3, &lt, &mut budget);
        let mut avail = c16::Avail { keys: [false; 4], pre: [false; 4] };
        for i in 0..4 {
            avail.keys[i] = rng.chance(2, 3);
            avail.pre[i] = rng.chance(2, 3);
        }
        pool.push(Item::Pol(Box::new(PolItem { pol, pools, avail, spec })));
    }
    // a source text: the rendering of one of the programs, or a broken one
    let texts: Vec<String> = pool
        .iter()
        .filter_map(|it| if let Item::Prog(p) = it { Some(Forest::from_program(Arc::clone(&p.shared_commit)).string_serialize()) } else { None })
        .take(2)
        .collect();
    for (i, t) in texts.into_iter().enumerate() {
        pool.push(Item::Text(if i == 1 { t.replace("comp", "cmop") } else { t }));
    }
    for _ in 0..2 {
        let t = ty::gen_ty(rng, &TyParams { max_width: 300, max_depth: 6, max_word_n: 6 });
        let v = val::gen_val(rng, &t);
        let mut tf = ty::ToFinal::new();
        let shared_value = val::build_ctor(&v, &t, &mut tf);
        let shared_final = ty::to_final(&t);
        pool.push(Item::Ty(Box::new(TyItem { t, v, shared_final, shared_value })));
    }
    pool
}

#[derive(Clone, Copy)]
struct Event {
    thread: usize,
    item: usize,
    op: usize,
    start: u64,
    end: u64,
}

fn one_round(rng: &mut Rng, case: &mut Case) -> Outcome {
    let threads = *rng.pick(&[2usize, 3, 4, 8, 8, 16, 16]);
    case.hint(&format!("threads={}", threads));
    let pool = match guard(|| gen_pool(rng)) {
        Ok(p) => p,
        Err(pn) => return violated("panic:pool", pn),
    };
    if pool.iter().filter(|i| matches!(i, Item::Prog(_))).count() == 0 {
        return Outcome::Inconclusive("generator".into());
    }
    // all (item, op) pairs and their sequential results
    let mut work: Vec<(usize, usize)> = Vec::new();
    for (i, it) in pool.iter().enumerate() {
        for o in 0..ops_of(it).len() {
            work.push((i, o));
        }
    }
    let mut expected: Vec<String> = Vec::with_capacity(work.len());
    for (i, o) in &work {
        let op = ops_of(&pool[*i])[*o];
        match guard(|| run_op(&pool[*i], op)) {
            Ok(d) => expected.push(d),
            Err(pn) => return violated(format!("panic:sequential:{}", op), pn),
        }
    }
    // sequential runs are themselves repeatable
    for (k, (i, o)) in work.iter().enumerate() {
        let op = ops_of(&pool[*i])[*o];
        if let Ok(d) = guard(|| run_op(&pool[*i], op)) {
            if d != expected[k] {
                return violated(format!("sequential-not-repeatable:{}", op), format!("first: {} ; second: {}", truncate(&expected[k], 400), truncate(&d, 400)));
            }
        }
    }
    case.desc = format!("{} threads ; {} items ; {} operations ; first program: {}", threads, pool.len(), work.len(), pool.iter().find_map(|i| if let Item::Prog(p) = i { Some(truncate(&p.dag.render(), 600)) } else { None }).unwrap_or_default());
    case.hash = Some(hash_str(&case.desc));

    let reps = rng.urange(2, 5);
    let seq = AtomicU64::new(0);
    let started = AtomicUsize::new(0);
    let events: Mutex<Vec<Event>> = Mutex::new(Vec::new());
    let failures: Mutex<Vec<(String, String)>> = Mutex::new(Vec::new());
    let seeds: Vec<u64> = (0..threads).map(|_| rng.next_u64()).collect();
    let (pool_ref, work_ref, expected_ref) = (&pool, &work, &expected);
    let joined = guard(|| {
        std::thread::scope(|s| {
            let mut handles = Vec::new();
            for th in 0..threads {
                let (seq, started, events, failures) = (&seq, &started, &events, &failures);
                let seed = seeds[th];
                handles.push(s.spawn(move || {
                    let mut r = Rng::new(seed);
                    let mut mine: Vec<usize> = (0..work_ref.len()).collect();
                    let mut local = Vec::new();
                    // start together
                    started.fetch_add(1, Ordering::SeqCst);
                    while started.load(Ordering::SeqCst) < threads {
                        std::hint::spin_loop();
                    }
                    for _ in 0..reps {
                        r.shuffle(&mut mine);
                        for &k in &mine {
                            let (i, o) = work_ref[k];
                            let op = ops_of(&pool_ref[i])[o];
                            if r.chance(1, 4) {
                                std::thread::yield_now();
                            }
                            let start = seq.fetch_add(1, Ordering::SeqCst);
                            let res = std::panic::catch_unwind(std::panic::AssertUnwindSafe(|| run_op(&pool_ref[i], op)));
                            let end = seq.fetch_add(1, Ordering::SeqCst);
                            local.push(Event { thread: th, item: i, op: o, start, end });
                            match res {
                                Ok(d) => {
                                    if d != expected_ref[k] {
                                        failures.lock().unwrap().push((format!("thread-result-differs:{}", op), format!("operation `{}` on item {} gave, on thread {} of {}: {} ; one at a time: {}", op, i, th, threads, truncate(&d, 500), truncate(&expected_ref[k], 500))));
                                    }
                                }
                                Err(_) => {
                                    failures.lock().unwrap().push((format!("panic:concurrent:{}", op), format!("operation `{}` on item {} panicked on thread {} of {} at {}", op, i, th, threads, crate::runner::last_panic_loc())));
                                }
                            }
                        }
                    }
                    events.lock().unwrap().extend(local);
                }));
            }
            for h in handles {
                let _ = h.join();
            }
        })
    });
    if let Err(pn) = joined {
        return violated("panic:thread-scope", pn);
    }
    let failures = failures.into_inner().unwrap();
    if let Some((sig, d)) = failures.into_iter().next() {
        return violated(sig, format!("{} ; {}", d, case.desc));
    }
    // what the log shows about concurrency actually achieved
    let ev = events.into_inner().unwrap();
    case.add("ops.concurrent", ev.len() as u64);
    let mut by_item: Vec<Vec<&Event>> = vec![Vec::new(); pool.len()];
    for e in &ev {
        by_item[e.item].push(e);
    }
    let mut overlaps = 0u64;
    let mut overlaps_shared = 0u64;
    for (i, list) in by_item.iter_mut().enumerate() {
        list.sort_by_key(|e| e.start);
        for a in 0..list.len() {
            for b in a + 1..list.len() {
                if list[b].start > list[a].end {
                    break;
                }
                if list[a].thread != list[b].thread {
                    overlaps += 1;
                    let shared_op = |e: &Event| {
                        let name = ops_of(&pool[i])[e.op];
                        name.ends_with("-shared") || name == "types" || name == "values"
                    };
                    if shared_op(list[a]) && shared_op(list[b]) {
                        overlaps_shared += 1;
                    }
                }
            }
        }
    }
    // maximum number of operations in flight at once
    let mut marks: Vec<(u64, i32)> = ev.iter().flat_map(|e| [(e.start, 1), (e.end, -1)]).collect();
    marks.sort();
    let (mut cur, mut peak) = (0i32, 0i32);
    for (_, d) in marks {
        cur += d;
        peak = peak.max(cur);
    }
    case.add("overlaps.same-item", overlaps);
    case.add("overlaps.same-shared-object", overlaps_shared);
    case.max("max-operations-in-flight", peak as u64);
    case.count(&format!("rounds.threads-{}", threads));
    for (i, o) in &work {
        case.add(&format!("op.{}", ops_of(&pool[*i])[*o]), (reps * threads) as u64);
    }
    if overlaps == 0 {
        return Outcome::Trivial;
    }
    Outcome::Held
}

/// Cold start, parent side: programs with jets as bytes, plus the seed from which the child regenerates the transactions.
pub fn cold_inputs(seed: u64) -> Vec<(Vec<u8>, Vec<u8>)> {
    let mut rng = Rng::new(seed);
    let mut out = Vec::new();
    let mut tries = 0;
    while out.len() < 4 && tries < 60 {
        tries += 1;
        if let Some(p) = gen_prog_item(&mut rng) {
            if p.dag.nodes.iter().any(|o| matches!(o, Op::Jet(_))) {
                out.push((p.pb, p.wb));
            }
        }
    }
    out
}

fn type_digest(k: usize) -> String {
    // the precomputed type tables: words up to 2^(2^31), the sha256 buffer types and the Ctx8 type
    let mut s = String::new();
    for n in [0usize, 3, 8, 9, 10, 11, 12, 16, 24, 31].iter().cycle().skip(k).take(10) {
        match Final::two_two_n(*n) {
            Ok(t) => s.push_str(&format!("w{}:{}:{};", n, t.tmr(), t.bit_width())),
            Err(_) => s.push_str(&format!("w{}:too-large;", n)),
        }
    }
    for n in (0..10usize).cycle().skip(k).take(10) {
        match Final::buffer8_two_n_plus_one(n) {
            Ok(t) => s.push_str(&format!("b{}:{}:{};", n, t.tmr(), t.bit_width())),
            Err(_) => s.push_str(&format!("b{}:too-large;", n)),
        }
    }
    let c = Final::ctx8();
    s.push_str(&format!("ctx8:{}:{};", c.tmr(), c.bit_width()));
    let e = simplicity::hashes::sha256::HashEngine::default();
    let v = std::panic::catch_unwind(|| Value::ctx8_from_hash_engine(&e)).map(|v| v.iter_compact().map(|b| if b { '1' } else { '0' }).collect::<String>()).unwrap_or_else(|_| "panic".into());
    s.push_str(&format!("ctx8-value:{}", hash_str(&v)));
    s
}

fn cold_op(progs: &[(Vec<u8>, Vec<u8>)], specs: &[TxSpec], i: usize, op: usize) -> String {
    match op {
        0 => match RedeemNode::decode::<_, _, Elements>(BitIter::from(&progs[i].0[..]), BitIter::from(&progs[i].1[..])) {
            Ok(r) => format!("{} ; {}", redeem_digest(&r), exec_digest(&r, &specs[i])),
            Err(e) => format!("decode-error:{}", e),
        },
        1 => {
            let env = txgen::build_env(&specs[i]);
            let c = cffi::run_c(&progs[i].0, &progs[i].1, After::Eval { flags: cffi::CHECK_NONE, env: Some(env.c_tx_env()) });
            format!("{}|{}|{}|{:?}", c.err, bits::fmt_bytes(&c.analysis.cmr), bits::fmt_bytes(&c.analysis.ihr), c.eval)
        }
        2 => match RedeemNode::decode::<_, _, Elements>(BitIter::from(&progs[i].0[..]), BitIter::from(&progs[i].1[..])) {
            Ok(r) => {
                let env = txgen::build_env(&specs[i]);
                match r.prune(&env) {
                    Ok(q) => format!("pruned:{}", q.ihr()),
                    Err(e) => format!("prune-error:{}", e),
                }
            }
            Err(e) => format!("decode-error:{}", e),
        },
        _ => type_digest(i),
    }
}

/// Cold start, child side: in a FRESH process whose first library calls happen on 16 threads released together
/// (decoding, type construction from the precomputed tables, jet execution, the C pipeline, pruning); whatever the
/// library or its C glue initialises lazily is initialised under contention. The one-at-a-time results are computed
/// afterwards in the same process. Returns a description of the first difference.
/// What the cold-start operations give in a process that ran them one at a time from the start (computed by the
/// parent; a child whose lazily built tables went wrong under contention would otherwise agree with itself).
pub fn cold_expected(seed: u64, progs: &[(Vec<u8>, Vec<u8>)]) -> Vec<String> {
    let mut rng = Rng::new(seed ^ 0x7a5c_01d5);
    let specs: Vec<TxSpec> = progs.iter().map(|_| txgen::gen_tx(&mut rng, 3, 3)).collect();
    let mut out = Vec::new();
    for i in 0..progs.len() {
        for o in 0..4 {
            out.push(cold_op(progs, &specs, i, o));
        }
    }
    out
}

pub fn cold_process(seed: u64, progs: &[(Vec<u8>, Vec<u8>)], expected: &[String]) -> Result<u64, String> {
    if progs.is_empty() {
        return Ok(0);
    }
    // transactions are plain data (no library types are touched by generating them)
    let mut rng = Rng::new(seed ^ 0x7a5c_01d5);
    let specs: Vec<TxSpec> = progs.iter().map(|_| txgen::gen_tx(&mut rng, 3, 3)).collect();
    let n_ops = 4usize;
    let threads = 16usize;
    let started = AtomicUsize::new(0);
    let results: Mutex<Vec<(usize, usize, usize, String)>> = Mutex::new(Vec::new());
    let (progs_ref, specs_ref) = (progs, &specs);
    std::thread::scope(|s| {
        for th in 0..threads {
            let (started, results) = (&started, &results);
            s.spawn(move || {
                started.fetch_add(1, Ordering::SeqCst);
                while started.load(Ordering::SeqCst) < threads {
                    std::hint::spin_loop();
                }
                let mut local = Vec::new();
                for k in 0..progs_ref.len() * n_ops {
                    let i = (k + th) % progs_ref.len();
                    let o = (k / progs_ref.len() + th) % n_ops;
                    let d = std::panic::catch_unwind(std::panic::AssertUnwindSafe(|| cold_op(progs_ref, specs_ref, i, o))).unwrap_or_else(|_| "panic".into());
                    local.push((th, i, o, d));
                }
                results.lock().unwrap().extend(local);
            });
        }
    });
    let results = results.into_inner().unwrap();
    let names = ["decode+exec", "c-pipeline", "decode+prune", "precomputed-types"];
    let mut n = 0u64;
    for (th, i, o, d) in results {
        let want = std::panic::catch_unwind(std::panic::AssertUnwindSafe(|| cold_op(progs, &specs, i, o))).unwrap_or_else(|_| "panic".into());
        n += 1;
        if d != want {
            return Err(format!("operation `{}` on program {} gave on thread {} of a fresh process: {} ; afterwards, one at a time: {}", names[o], i, th, truncate(&d, 300), truncate(&want, 300)));
        }
        if let Some(e) = expected.get(i * n_ops + o) {
            if d != *e {
                return Err(format!("operation `{}` on program {} gave on thread {} of a fresh process: {} ; in a process that ran it one at a time from the start: {}", names[o], i, th, truncate(&d, 300), truncate(e, 300)));
            }
        }
    }
    Ok(n)
}

pub fn run(ctx: &Ctx) {
    let t = ctx.tier;
    // cold starts: child processes of this worker (same binary, same sanitizer)
    let cold = ctx.param_u64("cold", t.pick(240, 6_000));
    ctx.run_sub("cold-start-processes", Plan::sample(cold, 0.25), |rng, case| {
        let seed = rng.next_u64();
        case.desc = format!("fresh process, seed {}", seed);
        case.hash = Some(seed);
        let exe = match std::env::current_exe() {
            Ok(e) => e,
            Err(e) => return Outcome::Inconclusive(format!("current_exe: {}", e)),
        };
        // the programs are generated here, in the parent; the child gets bytes only, so that its first library calls
        // are the concurrent ones
        let progs = cold_inputs(seed);
        if progs.is_empty() {
            return Outcome::Trivial;
        }
        let file = ctx.out_dir.join(format!("cold-{}-{}.txt", std::process::id(), case.idx));
        let expected = cold_expected(seed, &progs);
        let mut text: String = progs.iter().map(|(p, w)| format!("{} {}\n", crate::runner::hex(p), if w.is_empty() { "-".to_string() } else { crate::runner::hex(w) })).collect();
        for e in &expected {
            text.push_str(&format!("= {}\n", crate::runner::hex(e.as_bytes())));
        }
        if let Err(e) = std::fs::write(&file, text) {
            return Outcome::Inconclusive(format!("write: {}", e));
        }
        let out = std::process::Command::new(exe).args(["C20-cold", "--seed", &seed.to_string(), "--file", &file.to_string_lossy()]).output();
        let _ = std::fs::remove_file(&file);
        let out = match out {
            Ok(o) => o,
            Err(e) => return Outcome::Inconclusive(format!("spawn: {}", e)),
        };
        let stdout = String::from_utf8_lossy(&out.stdout).into_owned();
        let stderr = String::from_utf8_lossy(&out.stderr).into_owned();
        match out.status.code() {
            Some(0) => {
                let n: u64 = stdout.trim().rsplit(' ').next().and_then(|x| x.parse().ok()).unwrap_or(0);
                case.add("cold.operations-compared", n);
                if n == 0 { Outcome::Trivial } else { Outcome::Held }
            }
            Some(1) => violated("cold-start-result-differs", format!("{} ; {}", stdout.trim(), case.desc)),
            other => {
                let kind = if stderr.contains("ThreadSanitizer") { "tsan" } else if stderr.contains("AddressSanitizer") { "asan" } else { "died" };
                violated(format!("cold-start-{}:{:?}", kind, other), format!("child process ended with {:?} ; stderr: {} ; {}", out.status, truncate(&stderr, 1500), case.desc))
            }
        }
    });
    let rounds = ctx.param_u64("rounds", t.pick(1_200, 200_000));
    ctx.run_sub("mixed-rounds", Plan::sample(rounds, 0.9), |rng, case| one_round(rng, case));
}
