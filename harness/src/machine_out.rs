//! History h6: a value obtained as Bit Machine output after frame reuse, so that its sum padding
//! holds whatever an earlier frame left behind.
//!
//!   comp (pair (comp DIRT unit) (comp S_v iden)) (drop iden)  :  1 -> t
//!
//! `comp DIRT unit` allocates a frame, fills it with a bit pattern and releases it; `comp S_v iden`
//! re-allocates the same cells, the scribe S_v writes v skipping padding, and `iden` copies the
//! frame, padding included, towards the output.

use crate::rng::Rng;
use crate::ty::{self, Kind, T};
use crate::val::V;
use simplicity::jet::CoreEnv;
use simplicity::node::{ConstructNode, CoreConstructible};
use simplicity::types::{self, Context};
use simplicity::{BitMachine, Value, Word};
use std::sync::Arc;

type N<'b> = Arc<ConstructNode<'b>>;

/// Expression 1 -> t producing v, from unit/injl/injr/pair only (no word constants, so that
/// padding is skipped rather than written).
fn scribe<'b>(ctx: &Context<'b>, v: &V, t: &T) -> Result<N<'b>, String> {
    Ok(match (v, &t.kind) {
        (V::Unit, Kind::Unit) => N::unit(ctx),
        (V::L(x), Kind::Sum(a, _)) => N::injl(&scribe(ctx, x, a)?),
        (V::R(x), Kind::Sum(_, b)) => N::injr(&scribe(ctx, x, b)?),
        (V::P(x, y), Kind::Prod(a, b)) => {
            let l = scribe(ctx, x, a)?;
            let r = scribe(ctx, y, b)?;
            N::pair(&l, &r).map_err(|e| format!("pair: {}", e))?
        }
        _ => return Err("harness: ill-typed".into()),
    })
}

fn dirt_word(rng: &mut Rng, min_bits: usize) -> Word {
    let pattern = match rng.below(3) {
        0 => [0xffu8; 64],
        1 => [0xaau8; 64],
        _ => {
            let mut b = [0u8; 64];
            rng.fill(&mut b);
            b
        }
    };
    let mut w = Word::u512(pattern);
    while w.len() < min_bits {
        w = w.shallow_clone().product(w).expect("word doubling");
    }
    w
}

pub fn dirty_machine_output(v: &V, t: &T, rng: &mut Rng) -> Result<Value, String> {
    let ft = ty::to_final(t);
    let redeem = Context::with_context(|ctx| -> Result<_, String> {
        let dirt = N::const_word(&ctx, dirt_word(rng, t.width));
        let unit = N::unit(&ctx);
        let c1 = N::comp(&dirt, &unit).map_err(|e| e.to_string())?;
        let s = scribe(&ctx, v, t)?;
        // pin the scribe's target to t (the untaken sum branches are otherwise free)
        ctx.unify(&s.arrow().target, &types::Type::complete(&ctx, ft.clone()), "harness: pin scribe target")
            .map_err(|e| e.to_string())?;
        let iden = N::iden(&ctx);
        let c2 = N::comp(&s, &iden).map_err(|e| e.to_string())?;
        let p = N::pair(&c1, &c2).map_err(|e| e.to_string())?;
        let di = N::drop_(&N::iden(&ctx));
        let root = N::comp(&p, &di).map_err(|e| e.to_string())?;
        ctx.unify(&root.arrow().source, &types::Type::unit(&ctx), "harness: source = 1").map_err(|e| e.to_string())?;
        root.finalize_unpruned().map_err(|e| e.to_string())
    })?;
    let mut mac = BitMachine::for_program(&redeem).map_err(|e| e.to_string())?;
    mac.exec(&redeem, &CoreEnv::new()).map_err(|e| format!("exec: {}", e))
}
