//! C13 — bit streams and natural numbers code exactly. Oracle: M-bits (crate::bits).

use crate::bits::{self, NatDecode};
use crate::rng::Rng;
use crate::runner::{violated, Case, Ctx, Outcome, Plan};
use simplicity::{BitCollector, BitIter, BitIterCloseError, BitWriter};
use std::io::Write as _;

#[derive(Debug, PartialEq, Eq, Clone)]
enum NatErr {
    Overflow,
    Eof,
    BadIndex(usize, usize),
    Other(String),
}

fn classify<E: std::fmt::Debug>(e: &E) -> NatErr {
    let s = format!("{:?}", e);
    if s == "Overflow" {
        NatErr::Overflow
    } else if s.starts_with("EndOfStream") {
        NatErr::Eof
    } else if s.starts_with("BadIndex") {
        // BadIndex { got: 5, max: 4 }
        let nums: Vec<usize> = s
            .split(|c: char| !c.is_ascii_digit())
            .filter(|t| !t.is_empty())
            .filter_map(|t| t.parse().ok())
            .collect();
        if nums.len() == 2 {
            NatErr::BadIndex(nums[0], nums[1])
        } else {
            NatErr::Other(s)
        }
    } else {
        NatErr::Other(s)
    }
}

fn lib_encode(n: usize) -> (Vec<u8>, usize) {
    let mut sink = Vec::new();
    let mut w = BitWriter::new(&mut sink);
    let len = simplicity::encode_natural(n, &mut w).expect("vec");
    let tw = w.n_total_written();
    w.flush_all().expect("vec");
    assert_eq!(len, tw, "harness: returned length vs n_total_written");
    (sink, len)
}

/// Everything we check about one natural. Returns Err(sig, detail).
fn check_natural(n: u64, rng: &mut Rng) -> Result<(), (String, String)> {
    let model = bits::natural_bits(n);
    let (bytes, len) = lib_encode(n as usize);
    if len != model.len() || bytes != bits::bytes_of_bits(&model) {
        return Err((
            "nat-encode-mismatch".into(),
            format!(
                "encode_natural({}) wrote {} bits {} ; specification gives {} bits {}",
                n,
                len,
                bits::fmt_bytes(&bytes),
                model.len(),
                bits::bits_str(&model)
            ),
        ));
    }
    // decoding at every alignment, followed by junk
    let k = rng.usize_below(8);
    let mut stream: bits::Bits = (0..k).map(|_| rng.bool()).collect();
    stream.extend_from_slice(&model);
    let junk = rng.usize_below(20);
    for _ in 0..junk {
        stream.push(rng.bool());
    }
    let sbytes = bits::bytes_of_bits(&stream);
    macro_rules! try_ty {
        ($t:ty, $name:expr) => {{
            let mut it = BitIter::from(&sbytes[..]);
            for _ in 0..k {
                it.next();
            }
            let r = it.read_natural::<$t>(None);
            let fits = <$t>::try_from(n).is_ok();
            match (&r, fits) {
                (Ok(v), true) if u64::try_from(*v).ok() == Some(n) => {
                    if it.n_total_read() != k + model.len() {
                        return Err((
                            format!("nat-decode-consumed:{}", $name),
                            format!(
                                "read_natural::<{}> of ⌜{}⌝ at bit offset {} consumed {} bits, encoding has {}",
                                $name,
                                n,
                                k,
                                it.n_total_read() - k,
                                model.len()
                            ),
                        ));
                    }
                }
                (Err(e), false) if classify(e) == NatErr::Overflow => {}
                _ => {
                    return Err((
                        format!("nat-decode-type:{}", $name),
                        format!(
                            "read_natural::<{}> of ⌜{}⌝ (offset {}) returned {:?}; expected {}",
                            $name,
                            n,
                            k,
                            r.as_ref().map(|v| u64::try_from(*v).ok()),
                            if fits { "Ok(n)" } else { "Overflow" }
                        ),
                    ))
                }
            }
        }};
    }
    try_ty!(usize, "usize");
    try_ty!(u32, "u32");
    try_ty!(u64, "u64");
    try_ty!(u16, "u16");
    try_ty!(u8, "u8");
    try_ty!(i32, "i32");

    // bounds
    let mut bounds: Vec<u64> = vec![n.saturating_sub(1), n, n + 1, 0, u64::from(u32::MAX), 1];
    bounds.push(rng.below(2 * n + 2));
    for b in bounds {
        if b > u64::from(u32::MAX) {
            continue;
        }
        let mut it = BitIter::from(&sbytes[..]);
        for _ in 0..k {
            it.next();
        }
        let r = it.read_natural::<usize>(Some(b as usize));
        let ok = match &r {
            Ok(v) => n <= b && *v as u64 == n,
            Err(e) => n > b && classify(e) == NatErr::BadIndex(n as usize, b as usize),
        };
        if !ok {
            return Err((
                "nat-decode-bound".into(),
                format!(
                    "read_natural(Some({})) of ⌜{}⌝ returned {:?}; expected {}",
                    b,
                    n,
                    r,
                    if n <= b {
                        "Ok(n)".to_string()
                    } else {
                        format!("BadIndex{{got:{},max:{}}}", n, b)
                    }
                ),
            ));
        }
        // bounded u32 result type as well
        let mut it = BitIter::from(&sbytes[..]);
        for _ in 0..k {
            it.next();
        }
        let r = it.read_natural::<u32>(Some(b as u32));
        let ok = match &r {
            Ok(v) => n <= b && u64::from(*v) == n,
            Err(e) => n > b && classify(e) == NatErr::BadIndex(n as usize, b as usize),
        };
        if !ok {
            return Err((
                "nat-decode-bound:u32".into(),
                format!("read_natural::<u32>(Some({})) of ⌜{}⌝ returned {:?}", b, n, r),
            ));
        }
    }
    // truncation: every strict prefix (byte-granular, since streams are byte streams) is Eof
    if !model.is_empty() {
        let full = bits::bytes_of_bits(&model);
        for cut in 0..full.len() {
            // a prefix that still contains the whole code (trailing pad only) is not a truncation
            if cut * 8 >= model.len() {
                continue;
            }
            let mut it = BitIter::from(&full[..cut]);
            let r = it.read_natural::<usize>(None);
            match &r {
                Err(e) if classify(e) == NatErr::Eof => {}
                _ => {
                    return Err((
                        "nat-decode-truncated".into(),
                        format!(
                            "⌜{}⌝ truncated to {} byte(s) decoded as {:?}; expected EndOfStream",
                            n, cut, r
                        ),
                    ))
                }
            }
        }
    }
    Ok(())
}

/// Decoding direction on an arbitrary byte string.
fn check_decode(bytes: &[u8]) -> Result<bool, (String, String)> {
    let model = bits::decode_natural(&bits::bits_of_bytes(bytes));
    let mut it = BitIter::from(bytes);
    let r = it.read_natural::<u64>(None);
    match (&model, &r) {
        (NatDecode::Ok(n, used), Ok(v)) if v == n => {
            if it.n_total_read() != *used {
                return Err((
                    "nat-decode-consumed".into(),
                    format!(
                        "bytes {} decode to {} consuming {} bits; reference consumed {}",
                        bits::fmt_bytes(bytes),
                        v,
                        it.n_total_read(),
                        used
                    ),
                ));
            }
            // uniqueness: re-encoding gives exactly the consumed prefix
            let (enc, len) = lib_encode(*n as usize);
            let prefix = &bits::bits_of_bytes(bytes)[..*used];
            if len != *used || bits::bits_of_bytes(&enc)[..len] != *prefix {
                return Err((
                    "nat-decode-not-unique".into(),
                    format!(
                        "bytes {} decode to {} but ⌜{}⌝ re-encodes to {} ({} bits), not the consumed prefix {}",
                        bits::fmt_bytes(bytes),
                        n,
                        n,
                        bits::fmt_bytes(&enc),
                        len,
                        bits::bits_str(prefix)
                    ),
                ));
            }
            Ok(true)
        }
        (NatDecode::Overflow, Err(e))
            if matches!(classify(e), NatErr::Overflow | NatErr::Eof) =>
        {
            Ok(true)
        }
        (NatDecode::Eof, Err(e)) if classify(e) == NatErr::Eof => Ok(false),
        _ => Err((
            "nat-decode-mismatch".into(),
            format!(
                "bytes {}: read_natural returned {:?}, reference says {:?}",
                bits::fmt_bytes(bytes),
                r,
                model
            ),
        )),
    }
}

fn close_expectation(bytes: &[u8], pos: usize) -> Result<(), BitIterCloseError> {
    let consumed_bytes = pos.div_ceil(8);
    if consumed_bytes < bytes.len() {
        return Err(BitIterCloseError::TrailingBytes {
            first_byte: bytes[consumed_bytes],
        });
    }
    let total = bytes.len() * 8;
    let n_bits = total - pos;
    if n_bits == 0 {
        return Ok(());
    }
    let masked = bytes[bytes.len() - 1] & ((1u16 << n_bits) - 1) as u8;
    if masked != 0 {
        Err(BitIterCloseError::IllegalPadding {
            masked_padding: masked,
            n_bits,
        })
    } else {
        Ok(())
    }
}

fn check_rw(rng: &mut Rng, case: &mut Case) -> Outcome {
    // ---- writer side
    let mut sink: Vec<u8> = Vec::new();
    let mut model = bits::WriterModel::default();
    let mut written = 0usize; // what n_total_written must say
    let mut log = String::new();
    let n_ops = rng.urange(1, 40);
    {
        let mut w = BitWriter::new(&mut sink);
        for _ in 0..n_ops {
            match rng.weighted(&[30, 30, 15, 5, 8, 6]) {
                0 => {
                    let b = rng.bool();
                    w.write_bit(b).unwrap();
                    model.bits.push(b);
                    written += 1;
                    log.push_str(if b { "b1 " } else { "b0 " });
                }
                1 => {
                    let len = if rng.chance(1, 6) { *rng.pick(&[0usize, 1, 7, 8, 9, 63, 64]) } else { rng.urange(0, 64) };
                    let n = match rng.below(4) {
                        0 => 0,
                        1 => u64::MAX,
                        _ => rng.next_u64(),
                    };
                    let r = w.write_bits_be(n, len).unwrap();
                    if r != len {
                        return violated("bitwriter-return", format!("write_bits_be(_, {}) returned {}", len, r));
                    }
                    bits::push_uint(&mut model.bits, if len == 64 { n } else { n & ((1u64 << len) - 1) }, len);
                    written += len;
                    log.push_str(&format!("be({:#x},{}) ", n, len));
                }
                2 => {
                    let len = rng.urange(0, 5);
                    let data = rng.bytes(len);
                    let r = w.write(&data).unwrap();
                    if r != len {
                        return violated("bitwriter-return", format!("io::Write::write of {} bytes returned {}", len, r));
                    }
                    model.bits.extend(bits::bits_of_bytes(&data));
                    written += 8 * len;
                    log.push_str(&format!("wr({}) ", bits::fmt_bytes(&data)));
                }
                3 => {
                    w.flush().unwrap();
                    log.push_str("ioflush ");
                }
                4 => {
                    // explicit flush pads the current byte with zeros
                    w.flush_all().unwrap();
                    while model.bits.len() % 8 != 0 {
                        model.bits.push(false);
                    }
                    log.push_str("flush_all ");
                }
                _ => {
                    let sh = rng.range(1, 31);
                    let n = rng.range(1, 1 << sh);
                    let r = simplicity::encode_natural(n as usize, &mut w).unwrap();
                    let m = bits::natural_bits(n);
                    if r != m.len() {
                        return violated("nat-encode-len", format!("encode_natural({}) returned {} bits, specification {}", n, r, m.len()));
                    }
                    model.bits.extend(m);
                    written += r;
                    log.push_str(&format!("nat({}) ", n));
                }
            }
            if w.n_total_written() != written {
                case.desc = log.clone();
                return violated(
                    "bitwriter-counter",
                    format!("n_total_written = {} after ops [{}], expected {}", w.n_total_written(), log, written),
                );
            }
        }
        w.flush_all().unwrap();
    }
    let expect = model.bytes();
    case.desc = format!("write ops [{}] -> {}", log.trim_end(), bits::fmt_bytes(&sink));
    if sink != expect {
        return violated(
            "bitwriter-bytes",
            format!("ops [{}] produced {} ; reference {}", log, bits::fmt_bytes(&sink), bits::fmt_bytes(&expect)),
        );
    }
    // ---- reader side, on the bytes just produced (sometimes with a dirtied tail)
    let mut bytes = sink.clone();
    if rng.chance(1, 3) && !bytes.is_empty() {
        let i = bytes.len() - 1;
        bytes[i] ^= 1 << rng.below(8);
    }
    if rng.chance(1, 8) {
        let extra = rng.urange(1, 70);
        bytes.extend(rng.bytes(extra));
    }
    let all = bits::bits_of_bytes(&bytes);
    let mut pos = 0usize;
    let mut it = BitIter::from(bytes.clone());
    let mut rlog = String::new();
    let n_reads = rng.urange(0, 30);
    let mut stopped = false;
    for _ in 0..n_reads {
        let remaining = all.len() - pos;
        let op = rng.weighted(&[30, 20, 20, 20, 3, 2, 8]);
        let res: Result<(), String> = match op {
            0 => match it.read_bit() {
                Ok(b) if remaining >= 1 && b == all[pos] => { pos += 1; Ok(()) }
                Err(_) if remaining == 0 => { stopped = true; Ok(()) }
                r => Err(format!("read_bit at {} -> {:?}", pos, r)),
            },
            1 => match it.next() {
                Some(b) if remaining >= 1 && b == all[pos] => { pos += 1; Ok(()) }
                None if remaining == 0 => { stopped = true; Ok(()) }
                r => Err(format!("next at {} -> {:?}", pos, r)),
            },
            2 => match it.read_u2() {
                Ok(v) if remaining >= 2 && u8::from(v) == (u8::from(all[pos]) << 1 | u8::from(all[pos + 1])) => { pos += 2; Ok(()) }
                Err(_) if remaining < 2 => { stopped = true; Ok(()) }
                r => Err(format!("read_u2 at {} -> {:?}", pos, r)),
            },
            3 => match it.read_u8() {
                Ok(v) if remaining >= 8 && v == all[pos..pos + 8].iter().fold(0u8, |a, b| a << 1 | u8::from(*b)) => { pos += 8; Ok(()) }
                Err(_) if remaining < 8 => { stopped = true; Ok(()) }
                r => Err(format!("read_u8 at {} -> {:?}", pos, r)),
            },
            4 => match it.read_cmr() {
                Ok(v) if remaining >= 256 && v.to_byte_array().to_vec() == bits::bytes_of_bits(&all[pos..pos + 256]) => { pos += 256; Ok(()) }
                Err(_) if remaining < 256 => { stopped = true; Ok(()) }
                r => Err(format!("read_cmr at {} -> {:?}", pos, r.map(|c| c.to_string()))),
            },
            5 => match it.read_fail_entropy() {
                Ok(v) if remaining >= 512 && v.to_byte_array().to_vec() == bits::bytes_of_bits(&all[pos..pos + 512]) => { pos += 512; Ok(()) }
                Err(_) if remaining < 512 => { stopped = true; Ok(()) }
                r => Err(format!("read_fail_entropy at {} -> {:?}", pos, r.is_ok())),
            },
            _ => {
                let m = bits::decode_natural(&all[pos..]);
                let r = it.read_natural::<u32>(None);
                match (m, &r) {
                    (NatDecode::Ok(n, used), Ok(v)) if u64::from(*v) == n => { pos += used; Ok(()) }
                    (NatDecode::Overflow, Err(e)) if matches!(classify(e), NatErr::Overflow | NatErr::Eof) => { stopped = true; Ok(()) }
                    (NatDecode::Eof, Err(e)) if classify(e) == NatErr::Eof => { stopped = true; Ok(()) }
                    (m, r) => Err(format!("read_natural at {} -> {:?}, reference {:?}", pos, r, m)),
                }
            }
        };
        rlog.push_str(&format!("{} ", op));
        if let Err(e) = res {
            return violated("bititer-read", format!("stream {} reads [{}]: {}", bits::fmt_bytes(&bytes), rlog, e));
        }
        if stopped {
            break;
        }
        if it.n_total_read() != pos {
            return violated(
                "bititer-counter",
                format!("stream {} reads [{}]: n_total_read {} expected {}", bits::fmt_bytes(&bytes), rlog, it.n_total_read(), pos),
            );
        }
    }
    if !stopped {
        let got = it.close();
        let want = close_expectation(&bytes, pos);
        if got != want {
            return violated(
                "bititer-close",
                format!("stream {} after {} bits: close() = {:?}, expected {:?}", bits::fmt_bytes(&bytes), pos, got, want),
            );
        }
        case.count(if want.is_ok() { "close.ok" } else { "close.err" });
    }
    case.hash = Some(crate::rng::hash_str(&format!("{}|{}", log, rlog)));
    Outcome::Held
}

fn check_window(data: &[u8], s: usize, e: usize, rng: &mut Rng) -> Result<(), (String, String)> {
    let all = bits::bits_of_bytes(data);
    // (1) plain iteration
    let it = BitIter::byte_slice_window(data, s, e);
    let got: Vec<bool> = it.collect();
    if got.len() < e - s || got[..e - s] != all[s..e] {
        return Err((
            "window-bits".into(),
            format!("window({}, {}, {}) yields {} ; expected {}", bits::fmt_bytes(data), s, e, bits::bits_str(&got), bits::bits_str(&all[s..e])),
        ));
    }
    if got.len() != e - s {
        return Err((
            "window-overrun".into(),
            format!(
                "window({}, {}, {}) yields {} bits {} ; the range holds {} bits {}",
                bits::fmt_bytes(data), s, e, got.len(), bits::bits_str(&got), e - s, bits::bits_str(&all[s..e])
            ),
        ));
    }
    // (2) mixed reads inside the window
    let mut it = BitIter::byte_slice_window(data, s, e);
    let mut pos = s;
    loop {
        let remaining = e - pos;
        let op = rng.below(3);
        match op {
            0 => match it.read_u8() {
                Ok(v) if remaining >= 8 && v == all[pos..pos + 8].iter().fold(0u8, |a, b| a << 1 | u8::from(*b)) => pos += 8,
                Err(_) if remaining < 8 => break,
                r => return Err(("window-read-u8".into(), format!("window({}, {}, {}) read_u8 at {} -> {:?}", bits::fmt_bytes(data), s, e, pos, r))),
            },
            1 => match it.read_bit() {
                Ok(b) if remaining >= 1 && b == all[pos] => pos += 1,
                Err(_) if remaining == 0 => break,
                r => return Err(("window-read-bit".into(), format!("window({}, {}, {}) read_bit at {} -> {:?}", bits::fmt_bytes(data), s, e, pos, r))),
            },
            _ => match it.read_u2() {
                Ok(v) if remaining >= 2 && u8::from(v) == (u8::from(all[pos]) << 1 | u8::from(all[pos + 1])) => pos += 2,
                Err(_) if remaining < 2 => break,
                r => return Err(("window-read-u2".into(), format!("window({}, {}, {}) read_u2 at {} -> {:?}", bits::fmt_bytes(data), s, e, pos, r))),
            },
        }
        if it.n_total_read() != pos - s {
            return Err(("window-counter".into(), format!("window({}, {}, {}): n_total_read {} at position {}", bits::fmt_bytes(data), s, e, it.n_total_read(), pos - s)));
        }
    }
    Ok(())
}

pub fn run(ctx: &Ctx) {
    let t = ctx.tier;

    // (a) naturals: exhaustive small range + every power-of-two neighbourhood + random
    let small_max: u64 = t.pick(1 << 16, 1 << 22);
    const BLOCK: u64 = 512;
    ctx.run_sub("nat-small-exhaustive", Plan::enumerate(small_max / BLOCK, 0.25), |rng, case| {
        let lo = case.idx * BLOCK + 1;
        for n in lo..lo + BLOCK {
            if let Err((sig, d)) = check_natural(n, rng) {
                case.desc = format!("n = {}", n);
                return violated(sig, d);
            }
        }
        case.add("naturals", BLOCK);
        case.desc = format!("all n in [{}, {}]", lo, lo + BLOCK - 1);
        case.hash = Some(lo);
        Outcome::Held
    });
    // around 2^k for k = 1..=31 : [2^k - 64, 2^k + 64] (clipped to the encodable range)
    ctx.run_sub("nat-pow2-neighbourhoods", Plan::enumerate(31, 0.1), |rng, case| {
        let k = case.idx + 1;
        let c = 1u64 << k;
        let lo = c.saturating_sub(64).max(1);
        let hi = (c + 64).min((1u64 << 31) - 1);
        for n in lo..=hi {
            if let Err((sig, d)) = check_natural(n, rng) {
                case.desc = format!("n = {}", n);
                return violated(sig, d);
            }
        }
        case.add("naturals", hi - lo + 1);
        case.desc = format!("all n in [{}, {}] (around 2^{})", lo, hi, k);
        case.hash = Some(lo);
        Outcome::Held
    });
    // beyond the decodable range: 2^31 .. 2^64-1. The encoder must still write the number it was given
    // (the specification's bit string), and no reader may turn that string into a different number.
    ctx.run_sub("nat-beyond-range", Plan::enumerate(34, 0.05), |_rng, case| {
        let k = case.idx + 31;
        let c: u128 = 1u128 << k;
        let mut n_checked = 0u64;
        for d in -40i128..=40 {
            let n = c as i128 + d;
            if n < (1i128 << 31) || n > u64::MAX as i128 {
                continue;
            }
            let n = n as u64;
            let model = bits::natural_bits(n);
            let (bytes, len) = match crate::runner::guard(|| lib_encode(n as usize)) {
                Ok(x) => x,
                Err(pn) => return violated("panic:encode_natural", format!("n = {} : {}", n, pn)),
            };
            if len != model.len() || bytes != bits::bytes_of_bits(&model) {
                case.desc = format!("n = {}", n);
                return violated("nat-encode-mismatch", format!("encode_natural({}) wrote {} bits {} ; specification gives {} bits {}", n, len, bits::fmt_bytes(&bytes), model.len(), bits::bits_str(&model)));
            }
            macro_rules! no_other_number {
                ($t:ty, $name:expr) => {{
                    let mut it = BitIter::from(&bytes[..]);
                    if let Ok(v) = it.read_natural::<$t>(None) {
                        if u64::try_from(v).ok() != Some(n) {
                            case.desc = format!("n = {}", n);
                            return violated(format!("nat-truncated:{}", $name), format!("the encoding of {} reads back through read_natural::<{}> as {}", n, $name, v));
                        }
                    }
                }};
            }
            no_other_number!(u8, "u8");
            no_other_number!(u16, "u16");
            no_other_number!(u32, "u32");
            no_other_number!(u64, "u64");
            no_other_number!(usize, "usize");
            n_checked += 1;
        }
        case.add("naturals-beyond-range", n_checked);
        case.desc = format!("n within 40 of 2^{}", k);
        case.hash = Some(k);
        Outcome::Held
    });
    ctx.run_sub("nat-random", Plan::sample(t.pick(20_000, 100_000), 0.1), |rng, case| {
        for _ in 0..256 {
            let bitsz = rng.range(1, 31);
            let n = rng.range(1, (1u64 << bitsz) - 1 + u64::from(bitsz == 1));
            let n = n.clamp(1, (1u64 << 31) - 1);
            if let Err((sig, d)) = check_natural(n, rng) {
                case.desc = format!("n = {}", n);
                return violated(sig, d);
            }
        }
        case.add("naturals", 256);
        case.hash = Some(case.seed);
        case.desc = "256 random naturals of random magnitude".into();
        Outcome::Held
    });

    // (b) decoding direction: all byte strings of 1 and 2 bytes (3 in thorough), random longer ones
    let exh_bytes: u64 = t.pick(2, 3);
    for len in 1..=exh_bytes {
        let total = 1u64 << (8 * len);
        let block = 4096.min(total);
        ctx.run_sub(&format!("nat-decode-all-{}-byte-strings", len), Plan::enumerate(total / block, 0.15), |_rng, case| {
            let mut accepted = 0;
            for v in case.idx * block..(case.idx + 1) * block {
                let b = v.to_be_bytes();
                let s = &b[8 - len as usize..];
                match check_decode(s) {
                    Ok(a) => accepted += u64::from(a),
                    Err((sig, d)) => {
                        case.desc = bits::fmt_bytes(s);
                        return violated(sig, d);
                    }
                }
            }
            case.add("decode.strings", block);
            case.add("decode.decided", accepted);
            case.hash = Some(case.idx ^ (len << 56));
            case.desc = format!("all {}-byte strings {:#x}..{:#x}", len, case.idx * block, (case.idx + 1) * block);
            Outcome::Held
        });
    }
    ctx.run_sub("nat-decode-random", Plan::sample(t.pick(40_000, 400_000), 0.1), |rng, case| {
        for _ in 0..256 {
            let len = rng.urange(3, 9);
            let mut s = rng.bytes(len);
            // bias towards deep prefixes (many leading ones) so that nested lengths occur
            if rng.chance(1, 2) {
                let ones = rng.urange(0, 6);
                let bitsv = bits::bits_of_bytes(&s);
                let mut nb: bits::Bits = vec![true; ones];
                nb.push(false);
                nb.extend(bitsv);
                nb.truncate(len * 8);
                s = bits::bytes_of_bits(&nb);
            }
            if let Err((sig, d)) = check_decode(&s) {
                case.desc = bits::fmt_bytes(&s);
                return violated(sig, d);
            }
        }
        case.add("decode.strings", 256);
        case.hash = Some(case.seed);
        case.desc = "256 random 3..9-byte strings".into();
        Outcome::Held
    });

    // (c) writer/reader interleavings
    ctx.run_sub("rw-interleavings", Plan::sample(t.pick(1_500_000, 10_000_000), 0.25), |rng, case| check_rw(rng, case));

    // (d) windows: every (len, start, end) with len <= 5 (9 thorough), fresh random data per case
    let maxlen: u64 = t.pick(5, 9);
    let mut triples = Vec::new();
    for len in 0..=maxlen {
        for s in 0..=8 * len {
            triples.push((len, s));
        }
    }
    ctx.run_sub("window-all-ranges", Plan::enumerate(triples.len() as u64, 0.15), |rng, case| {
        let (len, s) = triples[case.idx as usize];
        let reps = 3;
        for _ in 0..reps {
            let data = match rng.below(3) {
                0 => vec![0xffu8; len as usize],
                _ => rng.bytes(len as usize),
            };
            for e in s..=8 * len {
                if let Err((sig, d)) = check_window(&data, s as usize, e as usize, rng) {
                    case.desc = format!("data {} start {} end {}", bits::fmt_bytes(&data), s, e);
                    return violated(sig, d);
                }
                case.count("windows");
            }
        }
        case.hash = Some(len << 32 | s);
        case.desc = format!("{}-byte slice, start {}, every end in {}..={}", len, s, s, 8 * len);
        Outcome::Held
    });

    // (e) collectors
    ctx.run_sub("collect-bits", Plan::sample(t.pick(200_000, 1_000_000), 0.05), |rng, case| {
        let n = rng.urange(0, 70);
        let v: bits::Bits = (0..n).map(|_| rng.bool()).collect();
        let (bytes, len) = v.iter().copied().collect_bits();
        if len != n || bytes != bits::bytes_of_bits(&v) {
            return violated("collect-bits", format!("collect_bits({}) = ({}, {})", bits::bits_str(&v), bits::fmt_bytes(&bytes), len));
        }
        let r = v.iter().copied().try_collect_bytes();
        if r.is_ok() != (n % 8 == 0) || r.as_ref().map(|b| *b != bits::bytes_of_bits(&v)).unwrap_or(false) {
            return violated("collect-bytes", format!("try_collect_bytes({}) = {:?}", bits::bits_str(&v), r));
        }
        case.hash = Some(crate::rng::hash_bytes(&bytes) ^ n as u64);
        case.desc = format!("{} bits {}", n, bits::bits_str(&v));
        Outcome::Held
    });
}
