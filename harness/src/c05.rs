//! C05 — Bit Machine execution equals the denotational semantics. Oracle: M-eval (+ M-jets).

use crate::ast::{self, Dag, Op};
use crate::eval::{Evaluator, Fail};
use crate::gen::{self, Family, GenParams};
use crate::prog::{self, Root};
use crate::rng::{hash_str, Rng};
use crate::runner::{guard, violated, Case, Ctx, Outcome, Plan};
use crate::ty::{self, TyParams, T};
use crate::val::{self, V};
use simplicity::jet::CoreEnv;

/// Wrap `dag : a -> b` so that its frames are shifted / dirtied; the wrapped program has the same arrow
/// and the same meaning.
pub fn wrap(dag: &Dag, a: &T, b: &T, kind: u64, rng: &mut Rng) -> Dag {
    let mut d = dag.clone();
    let root = d.root();
    let k = 1 + rng.usize_below(7);
    let junk_ty = {
        let mut t = ty::unit();
        for _ in 0..k {
            t = ty::prod(t, ty::bit());
        }
        t
    };
    let junk_val = val::ones_val(&junk_ty);
    let _ = (a, b);
    match kind % 3 {
        0 => {
            // output shifted by k bits:  comp (pair JUNK P) (drop iden)
            let j = {
                let mut g = gen::ProgGen::new(rng, GenParams { witness: false, ..GenParams::basic(0) });
                g.dag = d;
                g.intended = vec![(ty::unit(), ty::unit()); g.dag.len()];
                g.contains_wd = vec![false; g.dag.len()];
                let j = g.constant(a, &junk_ty, &junk_val);
                d = g.dag;
                j
            };
            let p = d.push(Op::Pair(j, root));
            let i = d.push(Op::Iden);
            let dr = d.push(Op::Drop(i));
            d.push(Op::Comp(p, dr));
        }
        1 => {
            // input shifted by k bits:  comp (pair JUNK iden) (drop P)
            let j = {
                let mut g = gen::ProgGen::new(rng, GenParams { witness: false, ..GenParams::basic(0) });
                g.dag = d;
                g.intended = vec![(ty::unit(), ty::unit()); g.dag.len()];
                g.contains_wd = vec![false; g.dag.len()];
                let j = g.constant(a, &junk_ty, &junk_val);
                d = g.dag;
                j
            };
            let i = d.push(Op::Iden);
            let p = d.push(Op::Pair(j, i));
            let dr = d.push(Op::Drop(root));
            d.push(Op::Comp(p, dr));
        }
        _ => {
            // frames reused after being filled with ones:  comp (pair (comp ONES unit) P) (drop iden)
            let u0 = d.push(Op::Unit);
            let ones = d.push(Op::Word(9, vec![0xff; 64]));
            let c0 = d.push(Op::Comp(u0, ones));
            let u1 = d.push(Op::Unit);
            let c1 = d.push(Op::Comp(c0, u1));
            let p = d.push(Op::Pair(c1, root));
            let i = d.push(Op::Iden);
            let dr = d.push(Op::Drop(i));
            d.push(Op::Comp(p, dr));
        }
    }
    d
}

pub struct Prepared {
    pub dag: Dag,
    pub typing: ast::Typing,
    pub cmrs: Vec<[u8; 32]>,
    pub a: T,
    pub b: T,
}

pub fn prepare(mut dag: Dag, a: &T, b: &T) -> Result<Prepared, String> {
    let typing = prog::typing_ok_or_harness(&dag, false, Some((a, b)))?;
    gen::retype_witnesses(&mut dag, &typing);
    let cmrs = ast::cmrs(&dag);
    Ok(Prepared { dag, typing, cmrs, a: a.clone(), b: b.clone() })
}

fn one_case(rng: &mut Rng, case: &mut Case, tp: &TyParams, fuel: usize, family: Family) -> Outcome {
    let a = ty::gen_ty(rng, tp);
    let b = ty::gen_ty(rng, tp);
    let p = GenParams { family, modelled_only: true, fuel, ..GenParams::basic(fuel) };
    let base = gen::gen_program(rng, &p, &a, &b);
    let prepared = match prepare(base, &a, &b) {
        Ok(p) => p,
        Err(e) => return Outcome::Inconclusive(e),
    };
    case.desc = format!("{} -> {} : {}", a, b, prepared.dag.render());
    case.hash = Some(hash_str(&case.desc));
    let inputs: Vec<V> = (0..3)
        .map(|k| match k {
            0 if rng.chance(1, 4) => val::zero_val(&a),
            1 if rng.chance(1, 4) => val::ones_val(&a),
            _ => val::gen_val(rng, &a),
        })
        .collect();
    // the plain program and two wrapped placements
    let mut variants = vec![("plain", prepared)];
    for kind in 0..3u64 {
        if rng.chance(1, 2) {
            let w = wrap(&variants[0].1.dag, &a, &b, kind, rng);
            match prepare(w, &a, &b) {
                Ok(p) => variants.push((["shift-output", "shift-input", "dirty-frames"][kind as usize], p)),
                Err(e) => return Outcome::Inconclusive(e),
            }
        }
    }
    let mut nontrivial = false;
    for (vname, pr) in &variants {
        let wits = match prog::witness_values(&pr.dag, rng, true) {
            Ok(w) => w,
            Err(e) => return violated("witness-history-failed", e),
        };
        let order = ast::natural_order(&pr.dag);
        let redeem = match guard(|| prog::build_redeem(&pr.dag, &order, &wits, Some((&a, &b)), Root::Free)) {
            Ok(Ok(r)) => r,
            Ok(Err(e)) => return violated("well-typed-program-rejected", format!("[{}] {} ; program {}", vname, e, pr.dag.render())),
            Err(p) => return violated("panic:build", format!("[{}] {}", vname, p)),
        };
        for v in &inputs {
            let mut ev = Evaluator::new(&pr.dag, &pr.typing, &pr.cmrs);
            let model = ev.run(v);
            if let Err(Fail::NoModel(m)) = &model {
                return Outcome::Inconclusive(format!("no model: {}", m));
            }
            let lin = if a.width == 0 {
                None
            } else {
                let h = *rng.pick(&[0usize, 1, 2, 3, 6]);
                match val::realise(h, v, &a, rng) {
                    Ok(x) => Some(x),
                    Err(e) => return violated("input-history-failed", e),
                }
            };
            let (lres, stats) = match guard(|| prog::run_machine(&redeem, lin.as_ref(), &CoreEnv::new())) {
                Ok(Ok(x)) => x,
                Ok(Err(e)) => return violated("machine-setup", format!("[{}] {} ; program {}", vname, e, pr.dag.render())),
                Err(p) => return violated(format!("panic:exec"), format!("[{}] input {} : {} ; program {}", vname, val::show(v), p, pr.dag.render())),
            };
            if let Err(e) = prog::compare_verdict(&model, &lres, &b) {
                let sig = match (&model, &lres) {
                    (Ok(_), Ok(_)) => "exec-output",
                    (Ok(_), Err(_)) => "exec-spurious-failure",
                    (Err(_), Ok(_)) => "exec-missed-failure",
                    _ => "exec-failure-kind",
                };
                return violated(format!("{}:{}", sig, vname), format!("[{}] input {} : {} ; program {} -> {} : {}", vname, val::show(v), e, a, b, pr.dag.render()));
            }
            if stats.frame_oob != 0 {
                return violated("frame-oob", format!("[{}] {} frame accesses outside their frame; input {} ; program {}", vname, stats.frame_oob, val::show(v), pr.dag.render()));
            }
            if stats.hw_cells > stats.io_width + stats.extra_cells || stats.hw_frames > stats.extra_frames + 2 {
                return violated("bounds-exceeded", format!("[{}] used {} cells / {} frames, bounds io {} + extra {} cells, {}+2 frames ; program {}", vname, stats.hw_cells, stats.hw_frames, stats.io_width, stats.extra_cells, stats.extra_frames, pr.dag.render()));
            }
            case.count(match &model {
                Ok(_) => "verdict.ok",
                Err(Fail::Assert(_)) => "verdict.assert",
                Err(Fail::FailNode(_)) => "verdict.fail-node",
                Err(Fail::Jet(_)) => "verdict.jet-failed",
                _ => "verdict.other",
            });
            case.count(&format!("variant.{}", vname));
            if *vname == "plain" {
                prog::op_histogram(&pr.dag, &ev.executed, case);
                let n_exec = ev.executed.iter().filter(|c| **c > 0).count();
                if n_exec >= 4 && b.width > 0 {
                    nontrivial = true;
                }
                case.count(&format!("width-residue.in.{}", a.width % 8));
                case.count(&format!("width-residue.out.{}", b.width % 8));
                for (i, op) in pr.dag.nodes.iter().enumerate() {
                    if ev.executed[i] > 0 {
                        match op {
                            Op::InjL(_) => case.count(&format!("pad.injl.{}", pr.typing[i].1.pad_l().min(9))),
                            Op::InjR(_) => case.count(&format!("pad.injr.{}", pr.typing[i].1.pad_r().min(9))),
                            Op::Drop(_) => case.count(&format!("drop-offset.{}", pr.typing[i].0.as_prod().unwrap().0.width % 8)),
                            _ => {}
                        }
                    }
                }
            }
        }
    }
    if nontrivial {
        Outcome::Held
    } else {
        Outcome::Trivial
    }
}

pub fn run(ctx: &Ctx) {
    let t = ctx.tier;
    ctx.run_sub("core-small", Plan::sample(t.pick(30_000, 1_500_000), 0.45), |rng, case| one_case(rng, case, &TyParams { max_width: 40, max_depth: 4, max_word_n: 4 }, 8, Family::Core));
    ctx.run_sub("core-medium", Plan::sample(t.pick(8_000, 400_000), 0.3), |rng, case| one_case(rng, case, &TyParams { max_width: 200, max_depth: 5, max_word_n: 6 }, 14, Family::Core));
    ctx.run_sub("nojets-deep", Plan::sample(t.pick(4_000, 200_000), 0.2), |rng, case| one_case(rng, case, &TyParams { max_width: 80, max_depth: 6, max_word_n: 5 }, 24, Family::None));
}
