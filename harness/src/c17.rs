//! C17 — the human-readable encoding round-trips; the parser always returns.
//!
//! Monitors:
//!  * program -> text -> program: `Forest::from_program(c).string_serialize()` must parse to a
//!    forest with the single root `main` whose commit program has c's CMR, c's bit encoding and,
//!    node by node in canonical (maximal-sharing post) order, c's combinators and arrows;
//!  * text -> forest -> text -> forest: every successfully parsed single-root text (generated
//!    from well-typed DAGs with named / inline sub-expressions, aliases, duplicate definitions
//!    of equal expressions, type ascriptions, `#{}` CMR expressions, comments) must survive
//!    render + parse with the same equalities;
//!  * arbitrary strings: `Forest::parse` returns Ok or Err (an error set that displays) and
//!    never panics or dies; whatever parses to a single root also goes through the round trip.

use crate::ast::{self, Dag, Op};
use crate::bits;
use crate::gen::{self, Family, GenParams};
use crate::prog::{self, Root};
use crate::rng::{hash_str, Rng};
use crate::runner::{guard, truncate, violated, Case, Ctx, Outcome, Plan};
use crate::ty::{self, TyParams};
use simplicity::dag::{DagLike, MaxSharing};
use simplicity::human_encoding::Forest;
use simplicity::jet::{Core, Elements, Jet};
use simplicity::node::{Commit, CommitNode, Inner};
use std::sync::Arc;

type Viol = (String, String);

fn inner_tag<C, X, W>(i: &Inner<C, X, W>) -> String {
    match i {
        Inner::Iden => "iden".into(),
        Inner::Unit => "unit".into(),
        Inner::InjL(_) => "injl".into(),
        Inner::InjR(_) => "injr".into(),
        Inner::Take(_) => "take".into(),
        Inner::Drop(_) => "drop".into(),
        Inner::Comp(..) => "comp".into(),
        Inner::Case(..) => "case".into(),
        Inner::AssertL(_, c) => format!("assertl #{}", c),
        Inner::AssertR(c, _) => format!("assertr #{}", c),
        Inner::Pair(..) => "pair".into(),
        Inner::Disconnect(..) => "disconnect".into(),
        Inner::Witness(_) => "witness".into(),
        Inner::Fail(e) => format!("fail {}", e),
        Inner::Jet(j) => format!("jet {}", j),
        Inner::Word(w) => format!("word {}", w),
    }
}

/// Canonical listing of a commit program: per node (maximal sharing, post order) the combinator,
/// child positions, CMR and arrow (by type Merkle root, so that huge types stay cheap).
fn listing(c: &CommitNode) -> Vec<String> {
    c.post_order_iter::<MaxSharing<Commit>>()
        .map(|d| {
            let a = d.node.arrow();
            format!("{} ({:?},{:?}) cmr {} : {} -> {}", inner_tag(d.node.inner()), d.left_index, d.right_index, d.node.cmr(), a.source.tmr(), a.target.tmr())
        })
        .collect()
}

/// Two node objects with one identity root but differently typed interiors (see known_findings.json, C01):
/// everything that shares by identity root -- the bit encoder, Forest::from_program, string_serialize -- treats
/// them as one node.
fn commit_has_ihr_twins(c: &CommitNode) -> bool {
    use simplicity::dag::InternalSharing;
    let mut seen: std::collections::HashMap<[u8; 32], Option<[u8; 32]>> = std::collections::HashMap::new();
    for d in c.post_order_iter::<InternalSharing>() {
        if let Some(i) = d.node.ihr() {
            let a = d.node.amr().map(|x| x.to_byte_array());
            let e = seen.entry(i.to_byte_array()).or_insert(a);
            if *e != a {
                return true;
            }
        }
    }
    false
}

fn compare_commit(what: &str, a: &CommitNode, b: &CommitNode) -> Result<(), Viol> {
    if a.cmr() != b.cmr() {
        return Err(("roundtrip-cmr-differs".into(), format!("{}: CMR {} became {}", what, a.cmr(), b.cmr())));
    }
    let (la, lb) = (listing(a), listing(b));
    if la != lb {
        let i = la.iter().zip(lb.iter()).position(|(x, y)| x != y).unwrap_or(la.len().min(lb.len()));
        return Err(("roundtrip-nodes-differ".into(), format!("{}: {} nodes became {}; first difference at position {}: `{}` vs `{}`", what, la.len(), lb.len(), i, la.get(i).map(|s| s.as_str()).unwrap_or("-"), lb.get(i).map(|s| s.as_str()).unwrap_or("-"))));
    }
    let (ea, eb) = (a.to_vec_without_witness(), b.to_vec_without_witness());
    if ea != eb {
        return Err(("roundtrip-encoding-differs".into(), format!("{}: encoding {} became {}", what, bits::fmt_bytes(&ea), bits::fmt_bytes(&eb))));
    }
    Ok(())
}

/// render + parse of a forest; compares every root.
fn roundtrip<J: Jet>(forest: &Forest, case: &Case) -> Result<(), Viol> {
    match roundtrip_inner::<J>(forest, case) {
        Err((sig, d)) if forest.roots().values().any(|r| commit_has_ihr_twins(&r.to_commit_node())) => Err(("roundtrip:equal-ihr-twins".into(), format!("[{}] {}", sig, d))),
        r => r,
    }
}

fn roundtrip_inner<J: Jet>(forest: &Forest, case: &Case) -> Result<(), Viol> {
    let text = guard(|| forest.string_serialize()).map_err(|pn| ("panic:string_serialize".to_string(), pn))?;
    let again = match guard(|| Forest::parse::<J>(&text)) {
        Ok(Ok(f)) => f,
        Ok(Err(e)) => return Err(("rendered-text-rejected".into(), format!("string_serialize produced text that does not parse: {} ; text:\n{}", truncate(&e.to_string(), 600), truncate(&text, 3000)))),
        Err(pn) => return Err(("panic:parse-rendered".into(), format!("{} ; text:\n{}", pn, truncate(&text, 3000)))),
    };
    let mut n1: Vec<&str> = forest.roots().keys().map(|k| &**k).collect();
    let mut n2: Vec<&str> = again.roots().keys().map(|k| &**k).collect();
    n1.sort();
    n2.sort();
    if n1 != n2 {
        return Err(("rendered-roots-differ".into(), format!("roots {:?} became {:?} ; text:\n{}", n1, n2, truncate(&text, 3000))));
    }
    for (name, node) in forest.roots() {
        let a = node.to_commit_node();
        let b = again.roots()[name].to_commit_node();
        compare_commit(&format!("root `{}`", name), &a, &b).map_err(|(s, d)| (s, format!("{} ; text:\n{}", d, truncate(&text, 3000))))?;
    }
    // fixpoint: a second rendering parses to the same again (names may differ, the program may not)
    let text2 = guard(|| again.string_serialize()).map_err(|pn| ("panic:string_serialize-2".to_string(), pn))?;
    if text2 != text {
        case.count("render.second-text-differs");
    } else {
        case.count("render.second-text-equal");
    }
    Ok(())
}

fn family_of(rng: &mut Rng) -> Family {
    *rng.pick(&[Family::None, Family::Core, Family::Elements, Family::Elements])
}

pub fn gen_dag(rng: &mut Rng, family: Family, fuel: usize, dup: u64) -> Option<(Dag, ast::Typing)> {
    gen_dag_sharing(rng, family, fuel, dup, true)
}

/// `unshare = false` keeps witness / disconnect nodes that are reachable along two paths: the text
/// format refuses those by rule, which is itself worth watching (a text that is accepted must round-trip).
pub fn gen_dag_sharing(rng: &mut Rng, family: Family, fuel: usize, dup: u64, unshare: bool) -> Option<(Dag, ast::Typing)> {
    let p = GenParams { family, share_pct: 15, dup_pct: dup, mid: TyParams { max_width: 40, max_depth: 3, max_word_n: 4 }, ..GenParams::basic(fuel) };
    let (a, b) = (ty::unit(), ty::unit());
    let dag = gen::gen_program(rng, &p, &a, &b);
    // no witness / disconnect node reachable along two paths (see gen::unshare_wd)
    let mut dag = if unshare { gen::unshare_wd(&dag) } else { dag };
    // a committed program does not contain the disconnected branch: its types must not depend on one
    for op in dag.nodes.iter_mut() {
        if let Op::Disconnect(a, Some(_)) = op {
            *op = Op::Disconnect(*a, None);
        }
    }
    let root = dag.root();
    let mut dag = gen::compact_witnesses(dag.reachable_from(root));
    if dag.len() > 4000 {
        return None;
    }
    let typing = ast::infer(&dag, true, None).ok()?;
    gen::retype_witnesses(&mut dag, &typing);
    Some((dag, typing))
}

/// A long chain of products / sums / injections around a small core: every node's type ascription is long, so the
/// rendered text carries hundreds of `*`, `+` and `?` operators (state kept across lines by the parser shows here).
fn chain_program(rng: &mut Rng) -> Dag {
    let mut d = Dag::default();
    let n = rng.urange(20, 90);
    let mut cur = d.push(if rng.bool() { Op::Unit } else { Op::Witness(None) });
    for _ in 0..n {
        cur = match rng.below(5) {
            0 | 1 => {
                let u = d.push(Op::Unit);
                d.push(Op::Pair(cur, u))
            }
            2 => {
                let u = d.push(Op::Unit);
                d.push(Op::Pair(u, cur))
            }
            3 => d.push(Op::InjL(cur)),
            _ => d.push(Op::InjR(cur)),
        };
    }
    let u = d.push(Op::Unit);
    d.push(Op::Comp(cur, u));
    d
}

fn program_case(rng: &mut Rng, case: &mut Case) -> Outcome {
    let family = family_of(rng);
    let fuel = rng.urange(1, 30);
    let dup = *rng.pick(&[0u64, 10, 30]);
    let generated = if rng.chance(1, 25) {
        case.count("program.long-type-chain");
        let d = chain_program(rng);
        ast::infer(&d, true, None).ok().map(|t| (d, t))
    } else {
        gen_dag(rng, family, fuel, dup)
    };
    let (dag, _) = match generated {
        Some(x) => x,
        None => return Outcome::Inconclusive("generator".into()),
    };
    case.desc = truncate(&dag.render(), 3000);
    case.hash = Some(hash_str(&case.desc));
    let order = ast::random_topo_order(&dag, rng);
    let c = match guard(|| prog::build_commit(&dag, &order, None, Root::Program)) {
        Ok(Ok(c)) => c,
        Ok(Err(e)) => return violated("well-typed-program-rejected", format!("{} ; {}", e, case.desc)),
        Err(pn) => return violated("panic:build", pn),
    };
    for op in &dag.nodes {
        match op {
            Op::AssertL(..) | Op::AssertR(..) => case.count("program.has-assertion"),
            Op::Disconnect(..) => case.count("program.has-disconnect"),
            Op::Witness(_) => case.count("program.has-witness"),
            Op::Fail(_) => case.count("program.has-fail"),
            Op::Word(..) => case.count("program.has-word"),
            Op::Jet(_) => case.count("program.has-jet"),
            _ => {}
        }
    }
    let forest = match guard(|| Forest::from_program(Arc::clone(&c))) {
        Ok(f) => f,
        Err(pn) => return violated("panic:from_program", format!("{} ; {}", pn, case.desc)),
    };
    // from_program itself keeps the program
    let back = forest.roots().get("main").map(|m| m.to_commit_node());
    match back {
        Some(b) => {
            if let Err((s, d)) = compare_commit("from_program", &c, &b) {
                if commit_has_ihr_twins(&c) {
                    return violated("roundtrip:equal-ihr-twins", format!("[from-program:{}] {} ; {}", s, d, case.desc));
                }
                return violated(format!("from-program:{}", s), format!("{} ; {}", d, case.desc));
            }
        }
        None => return violated("from-program-no-main", case.desc.clone()),
    }
    let r = match family {
        Family::Elements => roundtrip::<Elements>(&forest, case),
        _ => roundtrip::<Core>(&forest, case),
    };
    match r {
        Ok(()) => {
            if dag.len() >= 3 {
                Outcome::Held
            } else {
                Outcome::Trivial
            }
        }
        Err((s, d)) => violated(s, format!("{} ; program: {}", d, case.desc)),
    }
}

// ---------------------------------------------------------------------------------------------
// source text generator

const KEYWORDS: &[&str] = &["const", "assertl", "assertr", "fail", "disconnect", "case", "comp", "pair", "injl", "injr", "take", "drop", "unit", "iden", "witness", "_"];

fn fresh_name(rng: &mut Rng, used: &mut std::collections::HashSet<String>) -> String {
    const FIRST: &[u8] = b"abcdefghijklmnopqrstuvwxyzABCDEFGHIJKLMNOPQRSTUVWXYZ_-.'";
    const REST: &[u8] = b"abcdefghijklmnopqrstuvwxyzABCDEFGHIJKLMNOPQRSTUVWXYZ_-.'0123456789";
    loop {
        let n = 1 + rng.skewed(9);
        let mut s = String::new();
        if rng.chance(1, 4) {
            // the style of name the library itself hands out to unnamed nodes
            s = format!("{}{}", rng.pick(&["id", "ut", "jl", "jr", "dp", "tk", "cp", "cs", "asstl", "asstr", "pr", "disc", "wit", "FAIL", "jt", "const", "hole"]), rng.range(0, 12));
        } else {
            s.push(*rng.pick(FIRST) as char);
            for _ in 1..n {
                s.push(*rng.pick(REST) as char);
            }
        }
        if KEYWORDS.contains(&s.as_str()) || s.starts_with("prim") || s.starts_with("jet_") || s.starts_with("--") || s == "main" || s.contains("--") || used.contains(&s) {
            continue;
        }
        // `-` followed by `>` cannot happen (no `>` in the alphabet); a trailing `-` before `->` would lex differently
        if s.ends_with('-') {
            continue;
        }
        used.insert(s.clone());
        return s;
    }
}

struct SrcGen<'a> {
    dag: &'a Dag,
    typing: &'a ast::Typing,
    refs: Vec<usize>,
    name: Vec<Option<String>>,
    hole: usize,
    cmrs: Vec<[u8; 32]>,
    salt: u64,
    lines: Vec<String>,
    annotate_pct: u64,
    used: std::collections::HashSet<String>,
    pub features: Vec<&'static str>,
}

impl SrcGen<'_> {
    fn ty_text(&self, rng: &mut Rng, t: &ty::T) -> String {
        if rng.chance(1, 6) {
            "_".into()
        } else {
            format!("{}", t)
        }
    }

    fn arrow_text(&mut self, rng: &mut Rng, i: usize) -> String {
        let (a, b) = &self.typing[i];
        if a.tree_size > 200 || b.tree_size > 200 {
            return String::new();
        }
        format!(" : {} -> {}", self.ty_text(rng, a), self.ty_text(rng, b))
    }

    /// Expression text of node i (children by name or inline).
    fn expr(&mut self, rng: &mut Rng, i: usize, top: bool) -> String {
        if !top {
            if let Some(n) = &self.name[i] {
                return n.clone();
            }
        }
        let op = self.dag.nodes[i].clone();
        let wrap = |s: String, rng: &mut Rng| if rng.chance(1, 4) { format!("({})", s) } else { s };
        let s = match op {
            Op::Iden => "iden".to_string(),
            Op::Unit => "unit".to_string(),
            Op::InjL(c) => format!("injl {}", self.expr(rng, c, false)),
            Op::InjR(c) => format!("injr {}", self.expr(rng, c, false)),
            Op::Take(c) => format!("take {}", self.expr(rng, c, false)),
            Op::Drop(c) => format!("drop {}", self.expr(rng, c, false)),
            Op::Comp(a, b) => format!("comp {} {}", self.expr(rng, a, false), self.expr(rng, b, false)),
            Op::Pair(a, b) => format!("pair {} {}", self.expr(rng, a, false), self.expr(rng, b, false)),
            Op::Case(a, b) => {
                // sometimes turn a case into an assertion on the CMR expression of the other branch.
                // Decided per commitment root, not per node: a program that contains both `case a b`
                // and an assertion hiding the same `a` has two nodes with one identity root, which is
                // not a canonical program (C rejects it as an unshared sub-expression, and the
                // library's own bit encoder merges the two).
                let key = u64::from_le_bytes(self.cmrs[i][..8].try_into().unwrap());
                match crate::rng::mix(key, self.salt) % 10 {
                    0 => {
                        self.features.push("cmr-expression");
                        format!("assertl {} #{{{}}}", self.expr(rng, a, false), self.expr(rng, b, false))
                    }
                    1 => {
                        self.features.push("cmr-expression");
                        format!("assertr #{{{}}} {}", self.expr(rng, a, false), self.expr(rng, b, false))
                    }
                    _ => format!("case {} {}", self.expr(rng, a, false), self.expr(rng, b, false)),
                }
            }
            Op::AssertL(c, h) => {
                self.features.push("cmr-literal");
                format!("assertl {} #{}", self.expr(rng, c, false), bits::fmt_bytes(&h))
            }
            Op::AssertR(h, c) => {
                self.features.push("cmr-literal");
                format!("assertr #{} {}", bits::fmt_bytes(&h), self.expr(rng, c, false))
            }
            Op::Disconnect(a, _) => {
                self.hole += 1;
                self.features.push("hole");
                let h = fresh_name(rng, &mut self.used);
                format!("disconnect {} ?{}", self.expr(rng, a, false), h)
            }
            Op::Witness(_) => "witness".to_string(),
            Op::Fail(e) => {
                self.features.push("fail");
                format!("fail 0x{}", bits::fmt_bytes(&e))
            }
            Op::Word(n, packed) => {
                self.features.push("word");
                let nbits = 1usize << n;
                if nbits < 4 || rng.chance(1, 3) {
                    let b = bits::bits_of_bytes(&packed);
                    format!("const 0b{}", b[..nbits].iter().map(|x| if *x { '1' } else { '0' }).collect::<String>())
                } else {
                    let h = bits::fmt_bytes(&packed);
                    format!("const 0x{}", &h[..nbits / 4])
                }
            }
            Op::Jet(j) => format!("jet_{}", j.name()),
        };
        if top {
            s
        } else {
            // an inline compound child must be parenthesised only for readability: the grammar is prefix
            wrap(s, rng)
        }
    }
}

/// Text for a well-typed DAG. Nodes used more than once are always named (a witness or hole
/// written twice would be two nodes); others are named or inlined at random.
pub fn source_text(rng: &mut Rng, dag: &Dag, typing: &ast::Typing) -> (String, Vec<&'static str>) {
    let n = dag.len();
    let mut refs = vec![0usize; n];
    for op in &dag.nodes {
        let (a, b) = op.children();
        for c in [a, b].into_iter().flatten() {
            // the right child of disconnect is not written
            refs[c] += 1;
        }
        if let Op::Disconnect(_, Some(b)) = op {
            refs[*b] -= 1;
        }
    }
    let mut g = SrcGen { dag, typing, refs, name: vec![None; n], hole: 0, cmrs: ast::cmrs(dag), salt: rng.next_u64(), lines: Vec::new(), annotate_pct: *rng.pick(&[0u64, 30, 100]), used: Default::default(), features: Vec::new() };
    let inline_pct = *rng.pick(&[0u64, 40, 80]);
    // which nodes are reachable when the right children of disconnect are dropped
    let mut live = vec![false; n];
    live[n - 1] = true;
    for i in (0..n).rev() {
        if live[i] {
            let (a, b) = dag.nodes[i].children();
            if let Some(a) = a {
                live[a] = true;
            }
            if let Some(b) = b {
                if !matches!(dag.nodes[i], Op::Disconnect(..)) {
                    live[b] = true;
                }
            }
        }
    }
    // does a `#{}` expression share a node with the program proper? (then the program's types can
    // depend on text that rendering drops)
    {
        let choice = |i: usize| -> Option<usize> {
            if let Op::Case(a, b) = dag.nodes[i] {
                let key = u64::from_le_bytes(g.cmrs[i][..8].try_into().unwrap());
                match crate::rng::mix(key, g.salt) % 10 {
                    0 => Some(b),
                    1 => Some(a),
                    _ => None,
                }
            } else {
                None
            }
        };
        let (mut inprog, mut inhid) = (vec![false; n], vec![false; n]);
        inprog[n - 1] = true;
        for i in (0..n).rev() {
            if !inprog[i] && !inhid[i] {
                continue;
            }
            let (a, b) = dag.nodes[i].children();
            let hidden_child = choice(i);
            for (k, c) in [a, b].into_iter().enumerate() {
                if let Some(c) = c {
                    if k == 1 && matches!(dag.nodes[i], Op::Disconnect(..)) {
                        continue;
                    }
                    if inhid[i] || hidden_child == Some(c) {
                        inhid[c] = true;
                    }
                    if inprog[i] && hidden_child != Some(c) {
                        inprog[c] = true;
                    }
                    // case a a with one side hidden: the same node on both sides
                    if inprog[i] && hidden_child == Some(c) && a == b {
                        inprog[c] = true;
                    }
                }
            }
        }
        if (0..n).any(|i| inprog[i] && inhid[i]) {
            g.features.push("cmr-expression-shares-node");
        }
    }
    let mut defs: Vec<String> = Vec::new();
    // comments run to the end of the line, so only when definitions are on separate lines
    let one_line = rng.chance(1, 5);
    let with_comments = !one_line;
    for i in 0..n {
        if !live[i] {
            continue;
        }
        let named = i == n - 1 || g.refs[i] > 1 || !rng.chance(inline_pct, 100);
        if !named {
            continue;
        }
        let nm = if i == n - 1 { "main".to_string() } else { fresh_name(rng, &mut g.used) };
        let e = g.expr(rng, i, true);
        let arrow = if rng.chance(g.annotate_pct, 100) { g.arrow_text(rng, i) } else { String::new() };
        let mut line = format!("{} := {}{}", nm, e, arrow);
        if with_comments && rng.chance(1, 6) {
            line.push_str(" -- a comment := with tokens ( ? #{");
            g.features.push("comment");
        }
        // an alias in between: x := y
        if i != n - 1 && rng.chance(1, 10) {
            let alias = fresh_name(rng, &mut g.used);
            defs.push(line);
            defs.push(format!("{} := {}", alias, nm));
            g.features.push("alias");
            g.name[i] = Some(alias);
            continue;
        }
        // a separate type declaration line
        if !arrow_is_empty(&line) && rng.chance(1, 10) {
            let decl = format!("{}{}", nm, g.arrow_text(rng, i));
            if decl.contains(':') {
                defs.push(decl);
                g.features.push("type-declaration-line");
            }
        }
        defs.push(line);
        g.name[i] = Some(nm);
    }
    // definitions may come in any order
    if rng.chance(1, 2) {
        rng.shuffle(&mut defs);
        g.features.push("shuffled-lines");
    }
    let _ = &g.lines;
    let sep = if one_line { " " } else { "\n" };
    (defs.join(sep), g.features)
}

fn arrow_is_empty(line: &str) -> bool {
    !line.contains(" : ")
}

pub fn parse_family(text: &str, family: Family) -> Result<Result<Forest, String>, String> {
    guard(|| match family {
        Family::Elements => Forest::parse::<Elements>(text).map_err(|e| e.to_string()),
        _ => Forest::parse::<Core>(text).map_err(|e| e.to_string()),
    })
}

fn source_case(rng: &mut Rng, case: &mut Case) -> Outcome {
    let family = family_of(rng);
    let fuel = rng.urange(1, 24);
    let dup = *rng.pick(&[0u64, 15, 40]);
    // one text in six keeps witness / disconnect nodes shared between two paths
    let keep_shared = rng.chance(1, 6);
    let (dag, typing) = match gen_dag_sharing(rng, family, fuel, dup, !keep_shared) {
        Some(x) => x,
        None => return Outcome::Inconclusive("generator".into()),
    };
    let (text, features) = source_text(rng, &dag, &typing);
    case.desc = truncate(&text, 4000);
    case.hash = Some(hash_str(&text));
    let forest = match parse_family(&text, family) {
        Ok(Ok(f)) => f,
        Ok(Err(e)) => {
            // outside the property: a generated text the parser refuses. Counted, and bounded by a floor.
            case.count("source.generated-text-refused");
            if keep_shared && e.contains("distinct paths") {
                // refused by the format's own rule; nothing to round-trip
                case.count("source.shared-witness-or-disconnect-refused");
                return Outcome::Trivial;
            }
            let kind = if e.contains("failed to apply bound") {
                "type ascription"
            } else if e.contains("distinct paths") {
                "witness reachable twice"
            } else if e.contains("does not exist") {
                "missing name"
            } else {
                "other"
            };
            if case.replaying() {
                eprintln!("refused: {}\n{}", e, text);
            }
            return Outcome::Inconclusive(format!("generated text refused: {}", kind));
        }
        Err(pn) => return violated("panic:parse", format!("{} ; text:\n{}", pn, case.desc)),
    };
    if forest.roots().len() != 1 {
        case.count("source.not-single-root");
        return Outcome::Trivial;
    }
    for f in &features {
        case.count(&format!("source.feature.{}", f));
    }
    if keep_shared {
        case.count("source.generated-with-shared-witness-nodes-accepted");
    }
    // the parsed program is the one that was written down
    if let Some(m) = forest.roots().get("main") {
        let expect = ast::cmrs(&dag);
        let has_cmr_expr = features.contains(&"cmr-expression");
        if !has_cmr_expr && m.cmr().to_byte_array() != expect[dag.root()] {
            return violated("parsed-cmr-differs-from-source", format!("the text describes a program with CMR {} but parses to {} ; text:\n{}", bits::fmt_bytes(&expect[dag.root()]), m.cmr(), case.desc));
        }
    }
    let r = match family {
        Family::Elements => roundtrip::<Elements>(&forest, case),
        _ => roundtrip::<Core>(&forest, case),
    };
    match r {
        Ok(()) => {
            if dag.len() >= 3 {
                Outcome::Held
            } else {
                Outcome::Trivial
            }
        }
        Err((s, d)) => {
            // a recognisable class: the types of the program were fixed by a `#{}` expression that
            // shares a named node with the program; rendering keeps only the CMR of that expression
            if s == "rendered-text-rejected" && d.contains("type annotation") && features.contains(&"cmr-expression-shares-node") {
                return violated("rendered-text-rejected:types-fixed-by-cmr-expression", format!("{} ; source:\n{}", d, case.desc));
            }
            violated(s, format!("{} ; source:\n{}", d, case.desc))
        }
    }
}

// ---------------------------------------------------------------------------------------------
// arbitrary strings

const TOKENS: &[&str] = &[
    ":=", "->", "#{", "(", ")", "+", "*", ":", "}", "?", "const", "assertl", "assertr", "fail", "disconnect", "case", "comp", "pair", "injl", "injr", "take", "drop", "unit", "iden", "witness", "jet_add_32", "jet_verify", "jet_nope", "_", "0b0", "0b10", "0b01011010",
    "0x0", "0xabcd", "0x00000000000000000000000000000000", "#abcd1234abcd1234abcd1234abcd1234abcd1234abcd1234abcd1234abcd1234", "1", "2", "2^2", "2^8", "2^256", "2^3", "2^99999999999", "main", "a", "b", "x1", "prim", "--", "\n", "\n", " ", "3", "#", "2^",
];

fn soup(rng: &mut Rng, n: usize) -> String {
    let mut s = String::new();
    for _ in 0..n {
        s.push_str(*rng.pick(TOKENS));
        if rng.chance(4, 5) {
            s.push(' ');
        }
    }
    s
}

fn mutate(rng: &mut Rng, text: &str) -> String {
    let mut b: Vec<u8> = text.as_bytes().to_vec();
    for _ in 0..1 + rng.skewed(4) {
        if b.is_empty() {
            break;
        }
        let i = rng.usize_below(b.len());
        match rng.below(6) {
            0 => {
                b.remove(i);
            }
            1 => b.insert(i, *rng.pick(b"()?#{}:=->+*_ \n0123abxyz")),
            2 => b[i] = rng.next_u32() as u8,
            3 => {
                let j = rng.usize_below(b.len());
                b.swap(i, j);
            }
            4 => {
                let t = rng.pick(TOKENS).as_bytes().to_vec();
                let mut nb = b[..i].to_vec();
                nb.push(b' ');
                nb.extend(t);
                nb.push(b' ');
                nb.extend(&b[i..]);
                b = nb;
            }
            _ => b.truncate(i),
        }
    }
    String::from_utf8_lossy(&b).into_owned()
}

fn nested(kind: u64, depth: usize) -> String {
    match kind {
        0 => format!("main := {}unit{}", "(".repeat(depth), ")".repeat(depth)),
        1 => format!("main := {}unit", "injl ".repeat(depth)),
        2 => format!("main := unit : {}1{} -> 1", "(".repeat(depth), ")".repeat(depth)),
        3 => format!("main := unit : 1 -> 1{}", " + 1".repeat(depth)),
        4 => format!("main := {}unit", "comp unit ".repeat(depth)),
        5 => format!("main := {}unit{}", "assertl unit #{".repeat(depth), "}".repeat(depth)),
        6 => format!("main := {}unit", "(".repeat(depth)),
        _ => {
            // a long chain of named definitions
            let mut s = String::from("a0 := unit\n");
            for i in 1..depth {
                s.push_str(&format!("a{} := take a{}\n", i, i - 1));
            }
            s.push_str(&format!("main := comp (pair a{} unit) unit\n", depth.saturating_sub(1)));
            s
        }
    }
}

fn string_case(rng: &mut Rng, case: &mut Case, text: String, family: Family) -> Outcome {
    case.desc = truncate(&text, 1500);
    case.hash = Some(hash_str(&text));
    case.max("string.max-bytes", text.len() as u64);
    let _ = rng;
    match parse_family(&text, family) {
        Ok(Ok(f)) => {
            case.count("string.parsed-ok");
            if f.roots().len() == 1 {
                case.count("string.parsed-single-root");
                let r = match family {
                    Family::Elements => roundtrip::<Elements>(&f, case),
                    _ => roundtrip::<Core>(&f, case),
                };
                if let Err((s, d)) = r {
                    return violated(s, format!("{} ; source:\n{}", d, case.desc));
                }
            }
            Outcome::Held
        }
        Ok(Err(e)) => {
            case.count("string.error-list");
            if e.is_empty() {
                return violated("empty-error-display", format!("the error set displays as an empty string ; {}", case.desc));
            }
            Outcome::Held
        }
        Err(pn) => violated(format!("panic:parse:{}", crate::runner::last_panic_loc()), format!("{} ; text: {}", pn, case.desc)),
    }
}


// ---------------------------------------------------------------------------------------------
// the command-line tool (simpcli) as a subprocess: disassemble -> assemble -> the same base64

fn base64(data: &[u8]) -> String {
    const A: &[u8; 64] = b"ABCDEFGHIJKLMNOPQRSTUVWXYZabcdefghijklmnopqrstuvwxyz0123456789+/";
    let mut out = String::new();
    for ch in data.chunks(3) {
        let b = [ch[0], *ch.get(1).unwrap_or(&0), *ch.get(2).unwrap_or(&0)];
        let n = (b[0] as u32) << 16 | (b[1] as u32) << 8 | b[2] as u32;
        out.push(A[(n >> 18) as usize & 63] as char);
        out.push(A[(n >> 12) as usize & 63] as char);
        out.push(if ch.len() > 1 { A[(n >> 6) as usize & 63] as char } else { '=' });
        out.push(if ch.len() > 2 { A[n as usize & 63] as char } else { '=' });
    }
    out
}

fn run_cli(cli: &str, args: &[&str]) -> Result<(bool, String, String), String> {
    let o = std::process::Command::new(cli).args(args).output().map_err(|e| format!("cannot run {}: {}", cli, e))?;
    Ok((o.status.success(), String::from_utf8_lossy(&o.stdout).into_owned(), String::from_utf8_lossy(&o.stderr).into_owned()))
}

fn simpcli_case(rng: &mut Rng, case: &mut Case, cli: &str, dir: &std::path::Path) -> Outcome {
    let fuel = rng.urange(1, 24);
    let (dag, _) = match gen_dag(rng, Family::Elements, fuel, 15) {
        Some(x) => x,
        None => return Outcome::Inconclusive("generator".into()),
    };
    case.desc = truncate(&dag.render(), 2500);
    case.hash = Some(hash_str(&case.desc));
    let order = ast::natural_order(&dag);
    let c = match prog::build_commit(&dag, &order, None, Root::Program) {
        Ok(c) => c,
        Err(e) => return violated("well-typed-program-rejected", format!("{} ; {}", e, case.desc)),
    };
    let b64 = base64(&c.to_vec_without_witness());
    let file = dir.join(format!("simpcli-{}-{}.simf", std::process::id(), case.idx));
    let res = (|| -> Result<(), (String, String)> {
        let h = |e: String| ("harness:simpcli".to_string(), e);
        let (ok, text, err) = run_cli(cli, &["disassemble", &b64]).map_err(h)?;
        if !ok {
            return Err(("cli-disassemble-failed".into(), format!("simpcli disassemble {} failed: {}", b64, truncate(&err, 500))));
        }
        std::fs::write(&file, &text).map_err(|e| h(e.to_string()))?;
        let f = file.to_string_lossy().into_owned();
        let (ok, out, err) = run_cli(cli, &["assemble", &f]).map_err(h)?;
        if !ok || out.trim().is_empty() {
            return Err(("cli-assemble-failed".into(), format!("simpcli assemble of the disassembly of {} failed: {} ; text:\n{}", b64, truncate(&err, 600), truncate(&text, 2500))));
        }
        if out.trim() != b64 {
            return Err(("cli-roundtrip-differs".into(), format!("disassemble + assemble turned {} into {} ; text:\n{}", b64, out.trim(), truncate(&text, 2500))));
        }
        let (ok, text2, err) = run_cli(cli, &["relabel", &f]).map_err(h)?;
        if !ok {
            return Err(("cli-relabel-failed".into(), format!("simpcli relabel failed: {}", truncate(&err, 500))));
        }
        std::fs::write(&file, &text2).map_err(|e| h(e.to_string()))?;
        let (ok, out2, err) = run_cli(cli, &["assemble", &f]).map_err(h)?;
        if !ok || out2.trim() != b64 {
            return Err(("cli-relabel-roundtrip-differs".into(), format!("relabel + assemble turned {} into {} ({}) ; text:\n{}", b64, out2.trim(), truncate(&err, 300), truncate(&text2, 2500))));
        }
        Ok(())
    })();
    let _ = std::fs::remove_file(&file);
    match res {
        Ok(()) => {
            case.count("simpcli.roundtrips");
            if dag.len() >= 3 { Outcome::Held } else { Outcome::Trivial }
        }
        Err((s, d)) if s.starts_with("harness:") => Outcome::Inconclusive(d),
        Err((s, d)) => violated(s, format!("{} ; program: {}", d, case.desc)),
    }
}

pub fn run(ctx: &Ctx) {
    let t = ctx.tier;
    ctx.run_sub("program-roundtrip", Plan::sample(t.pick(40_000, 2_000_000), 0.3), |rng, case| program_case(rng, case));
    ctx.run_sub("source-roundtrip", Plan::sample(t.pick(40_000, 2_000_000), 0.3), |rng, case| source_case(rng, case));
    ctx.run_sub("arbitrary-strings", Plan::sample(t.pick(200_000, 10_000_000), 0.25), |rng, case| {
        let family = family_of(rng);
        let text = match rng.below(5) {
            0 => {
                let n = rng.skewed(200);
                String::from_utf8_lossy(&rng.bytes(n)).into_owned()
            }
            1 | 2 => {
                let n = rng.skewed(60);
                soup(rng, n)
            }
            _ => {
                let fuel = rng.urange(1, 10);
                match gen_dag(rng, family, fuel, 20) {
                    Some((dag, typing)) => {
                        let (s, _) = source_text(rng, &dag, &typing);
                        mutate(rng, &s)
                    }
                    None => soup(rng, 10),
                }
            }
        };
        string_case(rng, case, text, family)
    });
    // the command-line tool, when the driver has built it (path in SIMPCLI)
    if let Ok(cli) = std::env::var("SIMPCLI") {
        let dir = ctx.out_dir.clone();
        ctx.run_sub("simpcli-roundtrip", Plan::sample(t.pick(1_200, 60_000), 0.15), move |rng, case| simpcli_case(rng, case, &cli, &dir));
    }
    // fixed source texts, one per defect class met so far (cheap regression vectors)
    const FIXED: &[(&str, &str)] = &[
        ("cmr-literal", "main := comp (pair (injl unit) unit) (assertl unit #abcd1234abcd1234abcd1234abcd1234abcd1234abcd1234abcd1234abcd1234)"),
        ("cmr-literal-right", "main := comp (pair (injr unit) unit) (assertr #abcd1234abcd1234abcd1234abcd1234abcd1234abcd1234abcd1234abcd1234 unit)"),
        ("hole", "main := comp (disconnect (pair unit unit) ?h) unit"),
        ("two-holes", "main := comp (disconnect (pair unit unit) ?h) (comp (disconnect (pair unit unit) ?g) unit)"),
        ("option-type", "x := injr (const 0b1) : 1 -> 2?\nmain := comp x unit : 1 -> 1"),
        ("fail", "main := comp (pair (injl unit) unit) (case unit (fail 0x0123456789abcdef0123456789abcdef))"),
        ("equal-named", "a := unit\nb := unit\nmain := comp a (comp b unit)"),
        ("namer-collision", "ut1 := witness\nmain := comp ut1 unit"),
        ("namer-collision-2", "cp1 := comp unit unit\nmain := comp cp1 (comp unit (comp unit unit))"),
        ("alias-chain", "a := b\nb := c\nc := unit\nmain := comp a a"),
        ("types-fixed-by-cmr-expression", "e := unit\no := assertl e #{unit}\nmain := comp (pair (injl unit) witness) (assertl e #{comp (pair (injl unit) (const 0b1)) o})"),
    ];
    ctx.run_sub("fixed-texts", Plan::enumerate(FIXED.len() as u64, 0.02), |rng, case| {
        let (name, text) = FIXED[case.idx as usize];
        let _ = rng;
        case.desc = format!("{}: {}", name, text);
        case.hash = Some(hash_str(&case.desc));
        let forest = match parse_family(text, Family::Core) {
            Ok(Ok(f)) => f,
            Ok(Err(e)) => return violated(format!("fixed-text-refused:{}", name), format!("{} ; {}", e, text)),
            Err(pn) => return violated("panic:parse", format!("{} ; {}", pn, text)),
        };
        if forest.roots().len() != 1 || !forest.roots().contains_key("main") {
            return violated(format!("fixed-text-no-main:{}", name), format!("the text parses without error but the forest has roots {:?} ; {}", forest.roots().keys().collect::<Vec<_>>(), text));
        }
        match roundtrip::<Core>(&forest, case) {
            Ok(()) => Outcome::Held,
            Err((s, d)) => {
                if name == "types-fixed-by-cmr-expression" && s == "rendered-text-rejected" && d.contains("type annotation") {
                    return violated("rendered-text-rejected:types-fixed-by-cmr-expression", format!("{} ; source:\n{}", d, text));
                }
                violated(format!("{}:{}", s, name), format!("{} ; source:\n{}", d, text))
            }
        }
    });
    // nesting depth ladder; a crash here is attributed by the driver through the hint.
    // (Lexing computes a line/column per token by rescanning the input, so cost is quadratic in
    // the input length; the ladder stays where one case takes seconds, not minutes.)
    let mut ladder: Vec<(u64, usize)> = Vec::new();
    for kind in 0..7u64 {
        for d in [10usize, 100, 511, 512, 513, 1000, 3000, 10_000, 30_000] {
            ladder.push((kind, d));
        }
        if t == crate::runner::Tier::Thorough {
            ladder.push((kind, 100_000));
        }
    }
    for d in [10usize, 100, 1000, 5000, 20_000] {
        ladder.push((7, d));
    }
    if t == crate::runner::Tier::Thorough {
        ladder.push((7, 60_000));
        ladder.push((7, 100_000));
    }
    let probe_depth = ctx.param_u64("depth", 0) as usize;
    let probe_kind = ctx.param_u64("kind", 0);
    ctx.run_sub("nesting", Plan::enumerate(ladder.len() as u64, 0.3), |rng, case| {
        let (kind, depth) = if probe_depth > 0 { (probe_kind, probe_depth) } else { ladder[case.idx as usize] };
        case.hint(&format!("kind={} depth={}", kind, depth));
        let text = nested(kind, depth);
        let o = string_case(rng, case, text, Family::Core);
        case.desc = format!("nesting kind {} depth {}", kind, depth);
        case.hash = Some(hash_str(&case.desc));
        case.count(&format!("nesting.kind{}", kind));
        o
    });
}
