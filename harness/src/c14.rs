//! C14 — jet tables and foreign bindings match libsimplicity.
//! Monitors: (1) table self-consistency, (2) tables against the C tables, (3) every jet executed through
//! its Rust binding against the C evaluator's own table, (4) the repository's test binding of the C
//! evaluator against the harness's own nine-parameter binding. The gdb FFI-boundary tracer is a separate
//! pass driven by ./check (gdb/ffi_boundary.py).

use crate::ast::{self, Dag, JetRef, Op};
use crate::bits::{self, Bits};
use crate::c06;
use crate::cffi::{self, After};
use crate::gen::{self, Family};
use crate::prog::{self, Root};
use crate::rng::{hash_str, Rng};
use crate::runner::{guard, violated, Case, Ctx, Outcome, Plan};
use crate::txgen;
use crate::ty;
use crate::val;
use simplicity::jet::{Bitcoin, Core, CoreEnv, Elements, Jet};
use simplicity::{BitIter, BitWriter, Cost};
use std::collections::HashMap;

fn code_of<J: Jet>(j: &J) -> Bits {
    let mut sink = Vec::new();
    let n = {
        let mut w = BitWriter::new(&mut sink as &mut dyn std::io::Write);
        let n = j.encode(&mut w).expect("vec");
        w.flush_all().expect("vec");
        n
    };
    bits::bits_of_bytes(&sink)[..n].to_vec()
}

fn err_kind(e: &simplicity::decode::Error) -> &'static str {
    match e {
        simplicity::decode::Error::EndOfStream => "EndOfStream",
        simplicity::decode::Error::InvalidJet => "InvalidJet",
        _ => "other",
    }
}

/// Monitor 1 for one family. `with_roots`: also exercise cmr()/cost() (not for Bitcoin).
fn table_consistency<J: Jet + Copy + PartialEq + std::str::FromStr>(all: &[J], family: &str, case: &Case) -> Result<(), (String, String)> {
    let mut codes: Vec<(Bits, String)> = Vec::new();
    for j in all {
        let name = j.to_string();
        let code = code_of(j);
        // decode(encode(j)) == j, consuming exactly the written bits, at any alignment and with junk behind
        for junk in [&[][..], &[true, false, true, true, false, true, false, false, true][..]] {
            let mut stream = code.clone();
            stream.extend_from_slice(junk);
            let bytes = bits::bytes_of_bits(&stream);
            let mut it = BitIter::from(&bytes[..]);
            match J::decode(&mut it) {
                Ok(d) if d == *j => {
                    if it.n_total_read() != code.len() {
                        return Err((format!("jet-decode-consumed:{}", family), format!("{} jet {}: decode consumed {} bits, code has {}", family, name, it.n_total_read(), code.len())));
                    }
                }
                Ok(d) => return Err((format!("jet-code-roundtrip:{}", family), format!("{} jet {} encodes to {} which decodes to {}", family, name, bits::bits_str(&code), d))),
                Err(e) => return Err((format!("jet-code-roundtrip:{}", family), format!("{} jet {} encodes to {} which fails to decode: {}", family, name, bits::bits_str(&code), e))),
            }
        }
        // every strict prefix is an incomplete code
        for cut in 0..code.len() {
            // a prefix padded to a byte boundary would be followed by zero bits; use an iterator that truly ends
            let prefix: Bits = code[..cut].to_vec();
            if prefix.len() % 8 != 0 {
                continue;
            }
            let bytes = bits::bytes_of_bits(&prefix);
            let mut it = BitIter::from(&bytes[..]);
            match J::decode(&mut it) {
                Err(e) if err_kind(&e) == "EndOfStream" => {}
                other => return Err((format!("jet-prefix:{}", family), format!("{} jet {}: the {}-bit prefix of its code decodes to {:?}", family, name, cut, other.map(|x| x.to_string()).map_err(|e| e.to_string())))),
            }
        }
        // the name parses back
        match name.parse::<J>() {
            Ok(p) if p == *j => {}
            _ => return Err((format!("jet-name:{}", family), format!("{} jet {}: its display name does not parse back to it", family, name))),
        }
        match J::parse(&name) {
            Ok(p) if p == *j => {}
            _ => return Err((format!("jet-name:{}", family), format!("{} jet {}: Jet::parse of its name fails", family, name))),
        }
        // type names
        for (which, tn) in [("source", j.source_ty()), ("target", j.target_ty())] {
            let f = tn.to_final();
            if f.bit_width() != tn.to_bit_width() {
                return Err((format!("jet-type-width:{}", family), format!("{} jet {} {} type: to_bit_width {} but the expanded type {} is {} bits wide", family, name, which, tn.to_bit_width(), f, f.bit_width())));
            }
            if f.tmr() != tn.tmr() {
                return Err((format!("jet-type-tmr:{}", family), format!("{} jet {} {} type: TypeName::tmr differs from the expanded type's TMR", family, name, which)));
            }
            // and the expanded type's own bookkeeping against the harness definition
            let t = ty::from_final(&f);
            if t.width != f.bit_width() || ast::tmr_of(&t) != f.tmr().to_byte_array() {
                return Err((format!("jet-type-final:{}", family), format!("{} jet {} {} type {}: width/TMR of the library type disagree with the definition", family, name, which, t)));
            }
        }
        codes.push((code, name));
        case.count(&format!("table.{}", family));
    }
    // prefix-freeness: after sorting, a code that is a prefix of another is adjacent to an extension of itself
    codes.sort();
    for w in codes.windows(2) {
        if w[1].0.len() >= w[0].0.len() && w[1].0[..w[0].0.len()] == w[0].0[..] {
            return Err((format!("jet-code-prefix:{}", family), format!("{}: code of {} ({}) is a prefix of the code of {} ({})", family, w[0].1, bits::bits_str(&w[0].0), w[1].1, bits::bits_str(&w[1].0))));
        }
    }
    // bit strings that are not codes decode to InvalidJet or run out: try every string up to 12 bits
    let set: HashMap<Bits, ()> = codes.iter().map(|(c, _)| (c.clone(), ())).collect();
    let maxlen = codes.iter().map(|c| c.0.len()).max().unwrap_or(0);
    for len in 1..=12usize.min(maxlen) {
        for v in 0..(1u32 << len) {
            let s: Bits = (0..len).rev().map(|i| (v >> i) & 1 == 1).collect();
            // is s a code, or a strict prefix of one, or an extension of one?
            let is_prefix_or_ext = codes.iter().any(|(c, _)| (c.len() >= s.len() && c[..s.len()] == s[..]) || (c.len() < s.len() && s[..c.len()] == c[..]));
            if is_prefix_or_ext || set.contains_key(&s) {
                continue;
            }
            let mut padded = s.clone();
            padded.extend(std::iter::repeat(true).take(40));
            let bytes = bits::bytes_of_bits(&padded);
            let mut it = BitIter::from(&bytes[..]);
            match J::decode(&mut it) {
                Err(e) if err_kind(&e) == "InvalidJet" => {}
                other => return Err((format!("jet-noncode:{}", family), format!("{}: bit string {} is not a code but decodes to {:?}", family, bits::bits_str(&s), other.map(|x| x.to_string()).map_err(|e| e.to_string())))),
            }
        }
    }
    Ok(())
}

fn one_jet_bytes(j: &JetRef) -> Vec<u8> {
    let list = vec![crate::enc::ENode::Op(Op::Jet(*j))];
    bits::bytes_of_bits(&crate::enc::encode_list(&list))
}

fn elements_namesake(name: &str) -> Option<Elements> {
    name.parse::<Elements>().ok()
}

/// Monitor 3: one jet, one input, one environment.
fn exec_compare(j: JetRef, rng: &mut Rng, case: &Case) -> Result<(), (String, String)> {
    let name = j.name();
    let spec = txgen::gen_tx(rng, 4, 4);
    let env = guard(|| txgen::build_env(&spec)).map_err(|p| ("panic:env-build".to_string(), p))?;
    let src = j.source();
    let tgt = j.target();
    let mut v = c06::plausible_value(rng, &src, &spec);
    if name == "bip_0340_verify" && rng.bool() {
        let (pk, msg, sig) = c06::valid_bip340(rng);
        let mut b = pk.to_vec();
        b.extend(msg);
        b.extend(sig);
        v = val::decode_compact(&bits::bits_of_bytes(&b), &src).unwrap().0;
    }
    let dag = Dag { nodes: vec![Op::Jet(j)], witness: vec![] };
    let order = vec![0usize];
    let redeem = guard(|| prog::build_redeem(&dag, &order, &[], None, Root::Free)).map_err(|p| (format!("panic:build:{}", name), p))?.map_err(|e| (format!("jet-node-rejected:{}", name), e))?;
    let input = if src.width == 0 { None } else { Some(val::realise(0, &v, &src, rng).map_err(|e| ("input-history".to_string(), e))?) };
    let rres = match j {
        JetRef::Core(_) => guard(|| prog::run_machine(&redeem, input.as_ref(), &CoreEnv::new())),
        JetRef::Elements(_) => guard(|| prog::run_machine(&redeem, input.as_ref(), &env)),
    };
    let (rres, st) = rres.map_err(|p| (format!("panic:exec:{}", name), format!("{} on input {}", p, val::show(&v))))?.map_err(|e| (format!("machine-setup:{}", name), e))?;
    if st.frame_oob != 0 {
        return Err((format!("frame-oob:{}", name), format!("jet {}: {} accesses outside the frame (Rust-side width differs from what the machine allocated)", name, st.frame_oob)));
    }
    // C side: the Elements namesake's one-node expression through the C evaluator's own jet table
    let ej = match j {
        JetRef::Elements(e) => e,
        JetRef::Core(_) => elements_namesake(&name).ok_or_else(|| (format!("core-jet-without-elements-namesake:{}", name), format!("Core jet {} has no Elements namesake", name)))?,
    };
    let bytes = one_jet_bytes(&JetRef::Elements(ej));
    let in_bits = val::fill_padding(&val::padded_vec(&v, &src), rng, 0);
    let (cerr, cout, _an) = cffi::run_c_expression(&bytes, &in_bits, Some(env.c_tx_env())).map_err(|o| (format!("c-refuses-jet:{}:{}", name, cffi::err_name(o.err)), format!("C fails on the one-jet expression at stage {} ({}; C source width {})", o.stage, o.err, o.analysis.root_source_bits)))?;
    match (&rres, cerr) {
        (Ok(lv), 0) => {
            let cv = val::decode_padded(&cout, &tgt).ok_or_else(|| (format!("c-output-short:{}", name), "C output shorter than the target type".to_string()))?;
            val::denotes(lv, &cv, &tgt).map_err(|e| {
                (
                    format!("jet-output-differs:{}", name),
                    format!("jet {} on input {}: Rust binding gives {} ; C evaluator gives {} ; {}", name, crate::runner::truncate(&val::show(&v), 300), lv, crate::runner::truncate(&val::show(&cv), 300), e),
                )
            })?;
            case.count("exec.both-ok");
        }
        (Err(simplicity::bit_machine::ExecutionError::JetFailed(_)), -38) => case.count("exec.both-fail"),
        (r, c) => {
            return Err((
                format!("jet-verdict-differs:{}", name),
                format!("jet {} on input {}: Rust {} ; C {}", name, crate::runner::truncate(&val::show(&v), 300), match r { Ok(_) => "Ok".to_string(), Err(e) => e.to_string() }, cffi::err_name(c)),
            ))
        }
    }
    case.count(&format!("jet.{}", name));
    Ok(())
}

pub fn run(ctx: &Ctx) {
    let t = ctx.tier;

    // (4-lite) the repository's own declaration of evalTCOExpression, exercised for real: first, because a
    // wrong declaration can abort the process
    ctx.run_sub("repo-binding-eval", Plan::sample(t.pick(4_000, 20_000), 0.1), |rng, case| {
        let jets = gen::jets_of(Family::Elements);
        let ji = &jets[rng.usize_below(jets.len())];
        let spec = txgen::gen_tx(rng, 3, 3);
        let env = txgen::build_env(&spec);
        let v = c06::plausible_value(rng, &ji.src, &spec);
        let dag = c06::jet_wrapper(ji.jet, v.clone());
        let redeem = match guard(|| c06::build_program(&dag, rng)) {
            Ok(Ok(r)) => r,
            _ => return Outcome::Trivial,
        };
        let (p, w) = redeem.to_vec_with_witness();
        case.desc = format!("run_program(.., Everything, None, Some(env)) on jet {} input {}", ji.jet.name(), crate::runner::truncate(&val::show(&v), 120));
        case.hash = Some(hash_str(&case.desc));
        case.hint(&format!("repo binding simplicity_evalTCOProgram on jet {}", ji.jet.name()));
        // reference: the harness's nine-parameter binding, with CHECK_ALL as evalTCOProgram does
        let want = cffi::run_c(&p, &w, After::Eval { flags: cffi::CHECK_ALL, env: Some(env.c_tx_env()) });
        if want.err != 0 {
            return Outcome::Inconclusive(format!("C refuses: {}", cffi::err_name(want.err)));
        }
        let got = guard(|| simplicity_sys::tests::run_program(&p, &w, simplicity_sys::tests::TestUpTo::Everything, None, Some(env.c_tx_env())));
        match got {
            Err(pn) => violated("repo-binding-panic", format!("{} ; {}", pn, case.desc)),
            Ok(Err(e)) => violated("repo-binding-error", format!("run_program fails with {:?} where the C pipeline succeeds ; {}", e, case.desc)),
            Ok(Ok(out)) => {
                let got_code = out.eval_result as i32;
                if Some(got_code) != want.eval {
                    return violated(
                        "repo-binding-verdict",
                        format!("evaluation through simplicity-sys's own binding returns {} ; through a binding with the C prototype {} ; {}", cffi::err_name(got_code), cffi::err_name(want.eval.unwrap_or(1)), case.desc),
                    );
                }
                case.count(&format!("repo-binding.{}", cffi::err_name(got_code)));
                Outcome::Held
            }
        }
    });

    // (1) table self-consistency, exhaustive
    ctx.run_sub("tables-self-consistent", Plan::enumerate(3, 0.15), |_rng, case| {
        let r = match case.idx {
            0 => table_consistency::<Core>(&Core::ALL, "Core", case),
            1 => table_consistency::<Elements>(&Elements::ALL, "Elements", case),
            _ => table_consistency::<Bitcoin>(&Bitcoin::ALL, "Bitcoin", case),
        };
        case.desc = format!("family {}", ["Core", "Elements", "Bitcoin"][case.idx as usize]);
        case.hash = Some(case.idx);
        match r {
            Ok(()) => Outcome::Held,
            Err((sig, d)) => violated(sig, d),
        }
    });
    // Core vs Elements namesakes
    ctx.run_sub("core-vs-elements-namesakes", Plan::enumerate(1, 0.05), |_rng, case| {
        for c in Core::ALL.iter() {
            let name = c.to_string();
            let e = match elements_namesake(&name) {
                Some(e) => e,
                None => return violated("core-jet-without-elements-namesake", format!("Core jet {} has no Elements namesake", name)),
            };
            if c.source_ty().to_final().tmr() != e.source_ty().to_final().tmr() || c.target_ty().to_final().tmr() != e.target_ty().to_final().tmr() {
                return violated("core-elements-types", format!("jet {}: Core and Elements type names differ", name));
            }
            let cc = code_of(c);
            let ec = code_of(&e);
            if ec.len() != cc.len() + 1 || ec[0] || ec[1..] != cc[..] {
                return violated("core-elements-code", format!("jet {}: Elements code {} is not the family bit 0 followed by the Core code {}", name, bits::bits_str(&ec), bits::bits_str(&cc)));
            }
            case.count("namesakes");
        }
        case.desc = "all Core jets against their Elements namesakes".into();
        case.hash = Some(1);
        Outcome::Held
    });
    // (2) Elements tables against the C tables, exhaustive
    ctx.run_sub("elements-tables-vs-c", Plan::enumerate(Elements::ALL.len() as u64, 0.1), |_rng, case| {
        let j = Elements::ALL[case.idx as usize];
        let jr = JetRef::Elements(j);
        let name = jr.name();
        case.desc = format!("jet {}", name);
        case.hash = Some(hash_str(&name));
        let bytes = one_jet_bytes(&jr);
        let c = cffi::run_c(&bytes, &[], After::Analyse);
        // a one-node expression is not 1 -> 1 unless the jet is; everything before that stage must pass
        if c.err != 0 && !(c.err == -22 && c.stage == "one-one") {
            return violated(format!("c-refuses-jet:{}", name), format!("C fails on the one-node expression `jet {}` at stage {} with {}", name, c.stage, cffi::err_name(c.err)));
        }
        let n = &c.analysis.nodes[0];
        let h = |b: &[u8; 32]| bits::fmt_bytes(b);
        if n.cmr != j.cmr().to_byte_array() {
            return violated(format!("jet-cmr-vs-c:{}", name), format!("jet {}: Rust CMR {} ; C {}", name, j.cmr(), h(&n.cmr)));
        }
        if n.source_tmr != j.source_ty().tmr().to_byte_array() || n.target_tmr != j.target_ty().tmr().to_byte_array() {
            return violated(format!("jet-types-vs-c:{}", name), format!("jet {}: source/target TMR differ between the Rust table and C type inference", name));
        }
        if n.source_bits as usize != j.source_ty().to_bit_width() || n.target_bits as usize != j.target_ty().to_bit_width() {
            return violated(format!("jet-width-vs-c:{}", name), format!("jet {}: widths Rust {}/{} ; C {}/{}", name, j.source_ty().to_bit_width(), j.target_ty().to_bit_width(), n.source_bits, n.target_bits));
        }
        if Cost::from_milliweight(n.cost) != j.cost() {
            return violated(format!("jet-cost-vs-c:{}", name), format!("jet {}: Rust cost {} ; C node cost {}", name, j.cost(), n.cost));
        }
        // analyseBounds: overhead + jet cost
        if Cost::from_milliweight(c.analysis.cost) != Cost::from_milliweight(100) + j.cost() {
            return violated(format!("jet-bound-vs-c:{}", name), format!("jet {}: C cost bound {} ; Rust overhead + cost = {}", name, c.analysis.cost, Cost::from_milliweight(100) + j.cost()));
        }
        Outcome::Held
    });
    // (3) every jet through its Rust binding vs the C evaluator
    let all: Vec<JetRef> = Elements::ALL.iter().map(|j| JetRef::Elements(*j)).chain(Core::ALL.iter().map(|j| JetRef::Core(*j))).collect();
    let reps: u64 = ctx.param_u64("jet_reps", t.pick(40, 200));
    ctx.run_sub("every-jet-rust-binding-vs-c", Plan::enumerate(all.len() as u64 * reps, 0.5), |rng, case| {
        let j = all[(case.idx % all.len() as u64) as usize];
        case.desc = format!("jet {:?}", j);
        case.hash = Some(case.idx);
        match exec_compare(j, rng, case) {
            Ok(()) => Outcome::Held,
            Err((sig, d)) => violated(sig, d),
        }
    });
}
