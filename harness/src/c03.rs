//! C03 — validity, Merkle roots and cost agree with libsimplicity. Oracle: the vendored C code.

use crate::ast::Op;
use crate::bits;
use crate::c01;
use crate::cffi::{self, After};
use crate::gen::Family;
use crate::prog::{self, Root};
use crate::rng::{hash_bytes, Rng};
use crate::runner::{guard, violated, Case, Ctx, Outcome, Plan};
use simplicity::jet::Elements;
use simplicity::node::RedeemNode;
use simplicity::{BitIter, Cost};

/// C refusals that are limits of the C implementation, not verdicts on the program.
fn c_limit(e: i32) -> bool {
    matches!(e, -1 | -36 | -34 | -3)
}

pub fn compare(p: &[u8], w: &[u8], has_fail: Option<bool>, case: &Case) -> Result<&'static str, (String, String)> {
    let inp = || format!("program {} witness {}", crate::runner::truncate(&bits::fmt_bytes(p), 600), crate::runner::truncate(&bits::fmt_bytes(w), 300));
    let rust = guard(|| RedeemNode::decode::<_, _, Elements>(BitIter::from(p), BitIter::from(w))).map_err(|pn| ("panic:decode".to_string(), format!("{} ; {}", pn, inp())))?;
    let c = cffi::run_c(p, w, After::Analyse);
    match (&rust, c.err) {
        (Ok(r), 0) => {
            let h = |b: &[u8; 32]| bits::fmt_bytes(b);
            if r.cmr().to_byte_array() != c.analysis.cmr {
                return Err(("root-differs:cmr".into(), format!("CMR rust {} C {} ; {}", r.cmr(), h(&c.analysis.cmr), inp())));
            }
            if r.amr().to_byte_array() != c.analysis.amr {
                return Err(("root-differs:amr".into(), format!("AMR rust {} C {} ; {}", r.amr(), h(&c.analysis.amr), inp())));
            }
            if r.ihr().to_byte_array() != c.analysis.ihr {
                return Err(("root-differs:ihr".into(), format!("IHR rust {} C {} ; {}", r.ihr(), h(&c.analysis.ihr), inp())));
            }
            if r.bounds().cost != Cost::from_milliweight(c.analysis.cost) {
                return Err(("cost-differs".into(), format!("cost bound rust {} C {} ; {}", r.bounds().cost, c.analysis.cost, inp())));
            }
            case.count("both-accept");
            Ok("both-accept")
        }
        (Err(_), e) if e != 0 => {
            case.count("both-reject");
            case.count(&format!("c-reject.{}", cffi::err_name(e)));
            Ok("both-reject")
        }
        (Ok(_), e) => {
            // Rust accepts, C refuses
            if e == -6 {
                // the designed exception: programs containing a fail node
                let parsed_fail = has_fail.unwrap_or_else(|| {
                    crate::enc::parse_list(&bits::bits_of_bytes(p), Family::Elements).map(|pl| pl.list.iter().any(|n| matches!(n, crate::enc::ENode::Op(Op::Fail(_))))).unwrap_or(false)
                });
                if parsed_fail {
                    case.count("fail-node-exception");
                    return Ok("fail-exception");
                }
            }
            if c_limit(e) || (e == -2 && c.stage == "decode") {
                case.count(&format!("c-limit.{}", cffi::err_name(e)));
                return Ok("c-limit");
            }
            Err((format!("rust-accepts-c-rejects:{}", cffi::err_name(e)), format!("Rust decodes the program, C fails at stage `{}` with {} ; {}", c.stage, cffi::err_name(e), inp())))
        }
        (Err(e), 0) => Err(("c-accepts-rust-rejects".into(), format!("C accepts the program (cmr {}), Rust rejects it: {} ; {}", bits::fmt_bytes(&c.analysis.cmr), e, inp()))),
        (Err(_), _) => unreachable!(),
    }
}

fn mutate(rng: &mut Rng, b: &mut Vec<u8>) {
    match rng.below(5) {
        0 if !b.is_empty() => {
            let i = rng.usize_below(b.len());
            b[i] ^= 1 << rng.below(8);
        }
        1 if !b.is_empty() => {
            let n = rng.usize_below(b.len());
            b.truncate(n);
        }
        2 => {
            let n = rng.urange(1, 4);
            b.extend(rng.bytes(n));
        }
        3 if !b.is_empty() => {
            let i = rng.usize_below(b.len());
            b[i] = rng.next_u64() as u8;
        }
        _ => {
            if !b.is_empty() {
                let i = rng.usize_below(b.len());
                b.remove(i);
            }
        }
    }
}

pub fn elements_program(rng: &mut Rng, fuel: usize) -> Option<(crate::ast::Dag, Vec<u8>, Vec<u8>)> {
    let (dag, _) = c01::make_program(rng, Family::Elements, fuel, false).ok()?;
    if dag.nodes.iter().any(|o| matches!(o, Op::Disconnect(_, None))) {
        return None;
    }
    let wits = prog::witness_values(&dag, rng, false).ok()?;
    let order = crate::ast::natural_order(&dag);
    let r = prog::build_redeem(&dag, &order, &wits, None, Root::Program).ok()?;
    let (p, w) = r.to_vec_with_witness();
    Some((dag, p, w))
}

pub fn run(ctx: &Ctx) {
    let t = ctx.tier;
    ctx.run_sub("generated-programs", Plan::sample(t.pick(30_000, 1_500_000), 0.4), |rng, case| {
        let fuel = rng.urange(2, 18);
        let (dag, p, w) = match elements_program(rng, fuel) {
            Some(x) => x,
            None => return Outcome::Trivial,
        };
        case.desc = format!("{} ; bytes {} / {}", crate::runner::truncate(&dag.render(), 1500), bits::fmt_bytes(&p), bits::fmt_bytes(&w));
        case.hash = Some(hash_bytes(&p) ^ hash_bytes(&w).rotate_left(3));
        let has_fail = dag.nodes.iter().any(|o| matches!(o, Op::Fail(_)));
        for op in &dag.nodes {
            if let Op::Jet(j) = op {
                case.count(&format!("jet.{}", j.name()));
            }
        }
        match compare(&p, &w, Some(has_fail), case) {
            Ok("both-accept") | Ok("fail-exception") => Outcome::Held,
            Ok("c-limit") => Outcome::Inconclusive("C-side limit".into()),
            Ok(_) => violated("canonical-rejected-by-both", format!("both implementations reject the library's own encoding ; {}", case.desc)),
            Err((sig, d)) => violated(sig, d),
        }
    });
    ctx.run_sub("mutated-encodings", Plan::sample(t.pick(40_000, 3_000_000), 0.3), |rng, case| {
        let fuel = rng.urange(2, 12);
        let (_, mut p, mut w) = match elements_program(rng, fuel) {
            Some(x) => x,
            None => return Outcome::Trivial,
        };
        for _ in 0..rng.urange(1, 2) {
            if rng.chance(3, 4) || w.is_empty() {
                mutate(rng, &mut p);
            } else {
                mutate(rng, &mut w);
            }
        }
        case.desc = format!("bytes {} / {}", bits::fmt_bytes(&p), bits::fmt_bytes(&w));
        case.hash = Some(hash_bytes(&p) ^ hash_bytes(&w).rotate_left(5));
        match compare(&p, &w, None, case) {
            Ok(_) => Outcome::Held,
            Err((sig, d)) => violated(sig, d),
        }
    });
    ctx.run_sub("random-bytes", Plan::sample(t.pick(60_000, 5_000_000), 0.2), |rng, case| {
        let lp = 1 + rng.skewed(48);
        let mut p = rng.bytes(lp);
        if rng.chance(2, 3) {
            let n = rng.range(1, 10);
            let mut b = bits::natural_bits(n);
            b.extend(bits::bits_of_bytes(&p));
            p = bits::bytes_of_bits(&b);
        }
        let lw = rng.skewed(12);
        let w = rng.bytes(lw);
        case.desc = format!("bytes {} / {}", bits::fmt_bytes(&p), bits::fmt_bytes(&w));
        case.hash = Some(hash_bytes(&p) ^ hash_bytes(&w).rotate_left(11));
        match compare(&p, &w, None, case) {
            Ok(_) => Outcome::Held,
            Err((sig, d)) => violated(sig, d),
        }
    });
}
