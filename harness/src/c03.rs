//! C03 — validity, Merkle roots and cost agree with libsimplicity. Oracle: the vendored C code.

use crate::ast::Op;
use crate::bits;
use crate::c01;
use crate::cffi::{self, After};
use crate::gen::Family;
use crate::prog::{self, Root};
use crate::rng::{hash_bytes, Rng};
use crate::runner::{guard, violated, Case, Ctx, Outcome, Plan};
use simplicity::jet::Elements;
use simplicity::node::RedeemNode;
use simplicity::{BitIter, Cost};

/// C refusals that are limits of the C implementation, not verdicts on the program.
fn c_limit(e: i32) -> bool {
    matches!(e, -1 | -36 | -34 | -3)
}

pub fn compare(p: &[u8], w: &[u8], has_fail: Option<bool>, case: &Case) -> Result<&'static str, (String, String)> {
    let inp = || format!("program {} witness {}", crate::runner::truncate(&bits::fmt_bytes(p), 600), crate::runner::truncate(&bits::fmt_bytes(w), 300));
    let rust = guard(|| RedeemNode::decode::<_, _, Elements>(BitIter::from(p), BitIter::from(w))).map_err(|pn| ("panic:decode".to_string(), format!("{} ; {}", pn, inp())))?;
    let c = cffi::run_c(p, w, After::Analyse);
    match (&rust, c.err) {
        (Ok(r), 0) => {
            let h = |b: &[u8; 32]| bits::fmt_bytes(b);
            if r.cmr().to_byte_array() != c.analysis.cmr {
                return Err(("root-differs:cmr".into(), format!("CMR rust {} C {} ; {}", r.cmr(), h(&c.analysis.cmr), inp())));
            }
            if r.amr().to_byte_array() != c.analysis.amr {
                return Err(("root-differs:amr".into(), format!("AMR rust {} C {} ; {}", r.amr(), h(&c.analysis.amr), inp())));
            }
            if r.ihr().to_byte_array() != c.analysis.ihr {
                return Err(("root-differs:ihr".into(), format!("IHR rust {} C {} ; {}", r.ihr(), h(&c.analysis.ihr), inp())));
            }
            if r.bounds().cost != Cost::from_milliweight(c.analysis.cost) {
                return Err(("cost-differs".into(), format!("cost bound rust {} C {} ; {}", r.bounds().cost, c.analysis.cost, inp())));
            }
            case.count("both-accept");
            Ok("both-accept")
        }
        (Err(_), e) if e != 0 => {
            case.count("both-reject");
            case.count(&format!("c-reject.{}", cffi::err_name(e)));
            Ok("both-reject")
        }
        (Ok(_), e) => {
            // Rust accepts, C refuses
            if e == -6 {
                // the designed exception: programs containing a fail node
                let parsed_fail = has_fail.unwrap_or_else(|| {
                    crate::enc::parse_list(&bits::bits_of_bytes(p), Family::Elements).map(|pl| pl.list.iter().any(|n| matches!(n, crate::enc::ENode::Op(Op::Fail(_))))).unwrap_or(false)
                });
                if parsed_fail {
                    case.count("fail-node-exception");
                    return Ok("fail-exception");
                }
            }
            if c_limit(e) || (e == -2 && c.stage == "decode") {
                case.count(&format!("c-limit.{}", cffi::err_name(e)));
                return Ok("c-limit");
            }
            Err((format!("rust-accepts-c-rejects:{}", cffi::err_name(e)), format!("Rust decodes the program, C fails at stage `{}` with {} ; {}", c.stage, cffi::err_name(e), inp())))
        }
        (Err(e), 0) => Err(("c-accepts-rust-rejects".into(), format!("C accepts the program (cmr {}), Rust rejects it: {} ; {}", bits::fmt_bytes(&c.analysis.cmr), e, inp()))),
        (Err(_), _) => unreachable!(),
    }
}

fn mutate(rng: &mut Rng, b: &mut Vec<u8>) {
    match rng.below(5) {
        0 if !b.is_empty() => {
            let i = rng.usize_below(b.len());
            b[i] ^= 1 << rng.below(8);
        }
        1 if !b.is_empty() => {
            let n = rng.usize_below(b.len());
            b.truncate(n);
        }
        2 => {
            let n = rng.urange(1, 4);
            b.extend(rng.bytes(n));
        }
        3 if !b.is_empty() => {
            let i = rng.usize_below(b.len());
            b[i] = rng.next_u64() as u8;
        }
        _ => {
            if !b.is_empty() {
                let i = rng.usize_below(b.len());
                b.remove(i);
            }
        }
    }
}

pub fn elements_program(rng: &mut Rng, fuel: usize) -> Option<(crate::ast::Dag, Vec<u8>, Vec<u8>)> {
    let (dag, _) = c01::make_program(rng, Family::Elements, fuel, false).ok()?;
    if dag.nodes.iter().any(|o| matches!(o, Op::Disconnect(_, None))) {
        return None;
    }
    let wits = prog::witness_values(&dag, rng, false).ok()?;
    let order = crate::ast::natural_order(&dag);
    let r = prog::build_redeem(&dag, &order, &wits, None, Root::Program).ok()?;
    let (p, w) = r.to_vec_with_witness();
    Some((dag, p, w))
}

/// `comp witness X` where the witness target is forced to a padding-free type of exactly `n` bits:
/// a right-nested product of words, each consumed by a jet whose source is that word.
fn witness_of_width(rng: &mut Rng, n: usize) -> Option<crate::ast::Dag> {
    use crate::ast::Dag;
    let jets = crate::gen::jets_of(Family::Elements);
    let jet = |name: &str| jets.iter().find(|j| j.jet.name() == name).map(|j| j.jet);
    let table: [(usize, &str, usize); 8] = [(512, "eq_256", 9), (256, "scalar_normalize", 8), (128, "multiply_64", 7), (64, "complement_64", 6), (32, "complement_32", 5), (16, "complement_16", 4), (8, "complement_8", 3), (1, "complement_1", 0)];
    let mut comps: Vec<(crate::ast::JetRef, usize)> = Vec::new();
    let mut rest = n;
    for (w, name, k) in table.iter() {
        while rest >= *w {
            comps.push((jet(name)?, *k));
            rest -= w;
        }
    }
    rng.shuffle(&mut comps);
    let mut d = Dag::default();
    let k = comps.len();
    // the type and a random value of it
    let mut t = if k == 0 { crate::ty::unit() } else { crate::ty::word(comps[k - 1].1) };
    for i in (0..k.saturating_sub(1)).rev() {
        t = crate::ty::prod(crate::ty::word(comps[i].1), t);
    }
    let v = crate::val::gen_val(rng, &t);
    d.witness.push((v, t));
    let w = d.push(Op::Witness(Some(0)));
    let x = if k == 0 {
        d.push(Op::Unit)
    } else {
        let mut parts = Vec::new();
        for i in 0..k {
            let iden = d.push(Op::Iden);
            let mut sel = if i + 1 < k { d.push(Op::Take(iden)) } else { iden };
            for _ in 0..i {
                sel = d.push(Op::Drop(sel));
            }
            let j = d.push(Op::Jet(comps[i].0));
            parts.push(d.push(Op::Comp(sel, j)));
        }
        let mut p = parts[k - 1];
        for i in (0..k - 1).rev() {
            p = d.push(Op::Pair(parts[i], p));
        }
        let u = d.push(Op::Unit);
        d.push(Op::Comp(p, u))
    };
    d.push(Op::Comp(w, x));
    Some(d)
}

pub fn run(ctx: &Ctx) {
    let t = ctx.tier;
    // every witness bit length 0..=1100 (thorough ..=4200): the witness value is hashed into the identity root
    // in 512-bit blocks, so every residue of the length is a boundary case for one of the two implementations
    let max_len: u64 = t.pick(1100, 4200);
    ctx.run_sub("witness-bit-lengths", Plan::enumerate((max_len + 1) * 2, 0.15), |rng, case| {
        let n = (case.idx / 2) as usize;
        let dag = match witness_of_width(rng, n) {
            Some(d) => d,
            None => return Outcome::Inconclusive("jet table".into()),
        };
        let typing = match crate::ast::infer(&dag, true, None) {
            Ok(t) => t,
            Err(_) => return Outcome::Inconclusive("harness: width program ill-typed".into()),
        };
        if typing[0].1.width != n {
            return Outcome::Inconclusive(format!("harness: witness type has {} bits, wanted {}", typing[0].1.width, n));
        }
        let wits = match prog::witness_values(&dag, rng, false) {
            Ok(w) => w,
            Err(e) => return Outcome::Inconclusive(e),
        };
        let order = crate::ast::natural_order(&dag);
        let r = match prog::build_redeem(&dag, &order, &wits, None, Root::Program) {
            Ok(r) => r,
            Err(e) => return violated("well-typed-program-rejected", format!("{} ; witness of {} bits", e, n)),
        };
        let (p, w) = r.to_vec_with_witness();
        case.desc = format!("witness of {} bits ; bytes {} / {}", n, crate::runner::truncate(&bits::fmt_bytes(&p), 300), crate::runner::truncate(&bits::fmt_bytes(&w), 300));
        case.hash = Some(hash_bytes(&p) ^ hash_bytes(&w).rotate_left(3));
        case.count(&format!("witness-length-mod-512-block.{}", (n % 512) / 64));
        match compare(&p, &w, Some(false), case) {
            Ok("both-accept") => Outcome::Held,
            Ok("c-limit") => Outcome::Inconclusive("C-side limit".into()),
            Ok(other) => violated("width-program-not-accepted", format!("{} ; {}", other, case.desc)),
            Err((sig, d)) => violated(sig, d),
        }
    });
    ctx.run_sub("generated-programs", Plan::sample(t.pick(150_000, 1_500_000), 0.4), |rng, case| {
        let fuel = rng.urange(2, 18);
        let (dag, p, w) = match elements_program(rng, fuel) {
            Some(x) => x,
            None => return Outcome::Trivial,
        };
        case.desc = format!("{} ; bytes {} / {}", crate::runner::truncate(&dag.render(), 1500), bits::fmt_bytes(&p), bits::fmt_bytes(&w));
        case.hash = Some(hash_bytes(&p) ^ hash_bytes(&w).rotate_left(3));
        let has_fail = dag.nodes.iter().any(|o| matches!(o, Op::Fail(_)));
        for op in &dag.nodes {
            if let Op::Jet(j) = op {
                case.count(&format!("jet.{}", j.name()));
            }
        }
        match compare(&p, &w, Some(has_fail), case) {
            Ok("both-accept") | Ok("fail-exception") => Outcome::Held,
            Ok("c-limit") => Outcome::Inconclusive("C-side limit".into()),
            Ok(_) => violated("canonical-rejected-by-both", format!("both implementations reject the library's own encoding ; {}", case.desc)),
            Err((sig, d)) => violated(sig, d),
        }
    });
    ctx.run_sub("mutated-encodings", Plan::sample(t.pick(200_000, 3_000_000), 0.3), |rng, case| {
        let fuel = rng.urange(2, 12);
        let (_, mut p, mut w) = match elements_program(rng, fuel) {
            Some(x) => x,
            None => return Outcome::Trivial,
        };
        for _ in 0..rng.urange(1, 2) {
            if rng.chance(3, 4) || w.is_empty() {
                mutate(rng, &mut p);
            } else {
                mutate(rng, &mut w);
            }
        }
        case.desc = format!("bytes {} / {}", bits::fmt_bytes(&p), bits::fmt_bytes(&w));
        case.hash = Some(hash_bytes(&p) ^ hash_bytes(&w).rotate_left(5));
        match compare(&p, &w, None, case) {
            Ok(_) => Outcome::Held,
            Err((sig, d)) => violated(sig, d),
        }
    });
    ctx.run_sub("random-bytes", Plan::sample(t.pick(300_000, 5_000_000), 0.2), |rng, case| {
        let lp = 1 + rng.skewed(48);
        let mut p = rng.bytes(lp);
        if rng.chance(2, 3) {
            let n = rng.range(1, 10);
            let mut b = bits::natural_bits(n);
            b.extend(bits::bits_of_bytes(&p));
            p = bits::bytes_of_bits(&b);
        }
        let lw = rng.skewed(12);
        let w = rng.bytes(lw);
        case.desc = format!("bytes {} / {}", bits::fmt_bytes(&p), bits::fmt_bytes(&w));
        case.hash = Some(hash_bytes(&p) ^ hash_bytes(&w).rotate_left(11));
        match compare(&p, &w, None, case) {
            Ok(_) => Outcome::Held,
            Err((sig, d)) => violated(sig, d),
        }
    });
}
