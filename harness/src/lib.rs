//! vcore: shared machinery of the rust-simplicity runtime monitors.
#![allow(clippy::all)]

pub mod bits;
pub mod rng;
pub mod runner;

pub mod c13;
