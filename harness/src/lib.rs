//! vcore: shared machinery of the rust-simplicity runtime monitors.
#![allow(clippy::all)]

pub mod alloc;
pub mod bits;
pub mod rng;
pub mod runner;

pub mod ty;
pub mod val;
pub mod machine_out;
pub mod sha;
pub mod ast;
pub mod mjets;
pub mod eval;
pub mod gen;
pub mod prog;
pub mod enc;
pub mod cffi;
pub mod txgen;

pub mod c01;
pub mod c02;
pub mod c03;
pub mod c04;
pub mod c05;
pub mod c06;
pub mod c07;
pub mod c08;
pub mod c09;
pub mod c10;
pub mod c11;
pub mod c12;
pub mod c13;
pub mod c14;
pub mod c15;
pub mod c16;
pub mod c17;
pub mod c20;
pub mod c18;
pub mod c19;
