//! C16 — policies compile, satisfy and canonicalise consistently.
//!
//! Reference model: `Pol`, a plain policy tree with its own truth evaluation over an
//! availability pattern and the lock height / lock distance the jets read from the
//! environment, and its own canonical form (children multisets at every depth).

use crate::bits;
use crate::cffi::{self, After};
use crate::prog;
use crate::rng::{hash_str, Rng};
use crate::runner::{guard, truncate, violated, Case, Ctx, Outcome, Plan};
use crate::txgen::{self, TxSpec};
use simplicity::bitcoin::hashes::{sha256, Hash};
use simplicity::bitcoin::key::XOnlyPublicKey;
use simplicity::dag::{DagLike, InternalSharing};
use simplicity::elements::secp256k1_zkp as secp;
use simplicity::elements::{self, SchnorrSig, SchnorrSighashType};
use simplicity::node::Inner;
use simplicity::policy::{Policy, Preimage32, Satisfier, SatisfierError};
use simplicity::types::Context;
use simplicity::{Cmr, FailEntropy};
use std::collections::HashMap;
use std::sync::Arc;

type P = Policy<XOnlyPublicKey>;

/// The model's policy tree. Keys and hashes are indices into the case's pools.
#[derive(Clone, Debug, PartialEq, Eq, PartialOrd, Ord, Hash)]
pub enum Pol {
    Unsat(u8),
    Trivial,
    Key(usize),
    After(u32),
    Older(u16),
    Sha(usize),
    And(Box<Pol>, Box<Pol>),
    Or(Box<Pol>, Box<Pol>),
    Thresh(usize, Vec<Pol>),
}

pub struct Pools {
    pub keys: Vec<(secp::Keypair, XOnlyPublicKey)>,
    pub pre: Vec<([u8; 32], sha256::Hash)>,
}

thread_local! {
    static SECP: secp::Secp256k1<secp::All> = secp::Secp256k1::new();
}

pub fn gen_pools(rng: &mut Rng) -> Pools {
    let mut keys = Vec::new();
    while keys.len() < 4 {
        let mut sk = [0u8; 32];
        rng.fill(&mut sk);
        if let Ok(kp) = SECP.with(|s| secp::Keypair::from_seckey_slice(s, &sk)) {
            let x = kp.x_only_public_key().0;
            keys.push((kp, x));
        }
    }
    let mut pre = Vec::new();
    for _ in 0..4 {
        let mut p = [0u8; 32];
        rng.fill(&mut p);
        pre.push((p, sha256::Hash::hash(&p)));
    }
    Pools { keys, pre }
}

fn entropy(b: u8) -> FailEntropy {
    let mut e = [0u8; 64];
    e[0] = b;
    e[63] = b.wrapping_mul(7);
    FailEntropy::from_byte_array(e)
}

pub struct LockTruth {
    pub height: u32,
    pub distance: u16,
}

/// What check_lock_height / check_lock_distance compare against (C: env.c, elementsJets.c).
pub fn lock_truth(spec: &TxSpec) -> LockTruth {
    let is_final = spec.ins.iter().all(|i| i.sequence == 0xffff_ffff);
    let height = if !is_final && spec.locktime < 500_000_000 { spec.locktime } else { 0 };
    let mut distance = 0u16;
    if spec.version >= 2 {
        for i in &spec.ins {
            if i.sequence < 0x8000_0000 && i.sequence & (1 << 22) == 0 {
                distance = distance.max((i.sequence & 0xffff) as u16);
            }
        }
    }
    LockTruth { height, distance }
}

pub fn gen_pol(rng: &mut Rng, depth: usize, lt: &LockTruth, budget: &mut usize) -> Pol {
    let leaf = depth == 0 || *budget == 0 || rng.chance(1, 5);
    *budget = budget.saturating_sub(1);
    if leaf {
        return match rng.weighted(&[5, 4, 3, 3, 1, 1]) {
            0 => Pol::Key(rng.usize_below(4)),
            1 => Pol::Sha(rng.usize_below(4)),
            2 => {
                let h = lt.height;
                let c = [0, 1, h, h.wrapping_sub(1), h.saturating_add(1), rng.below(1000) as u32, 499_999_999, rng.below(500_000_000) as u32];
                Pol::After((*rng.pick(&c)).min(499_999_999))
            }
            3 => {
                let d = lt.distance;
                let c = [0, 1, d, d.wrapping_sub(1), d.saturating_add(1), rng.below(70000) as u16, 0xffff];
                Pol::Older(*rng.pick(&c))
            }
            4 => Pol::Trivial,
            _ => Pol::Unsat(rng.below(3) as u8),
        };
    }
    match rng.weighted(&[3, 3, 3]) {
        0 => Pol::And(Box::new(gen_pol(rng, depth - 1, lt, budget)), Box::new(gen_pol(rng, depth - 1, lt, budget))),
        1 => Pol::Or(Box::new(gen_pol(rng, depth - 1, lt, budget)), Box::new(gen_pol(rng, depth - 1, lt, budget))),
        _ => {
            let n = 1 + rng.skewed(5);
            let subs: Vec<Pol> = (0..n).map(|_| gen_pol(rng, depth - 1, lt, budget)).collect();
            let k = match rng.below(6) {
                0 => 0,
                1 => n,
                _ => rng.urange(0, n),
            };
            Pol::Thresh(k, subs)
        }
    }
}

pub fn to_policy(p: &Pol, pools: &Pools) -> P {
    match p {
        Pol::Unsat(b) => Policy::Unsatisfiable(entropy(*b)),
        Pol::Trivial => Policy::Trivial,
        Pol::Key(i) => Policy::Key(pools.keys[*i].1),
        Pol::After(n) => Policy::After(*n),
        Pol::Older(n) => Policy::Older(*n),
        Pol::Sha(i) => Policy::Sha256(pools.pre[*i].1),
        Pol::And(l, r) => Policy::And { left: Arc::new(to_policy(l, pools)), right: Arc::new(to_policy(r, pools)) },
        Pol::Or(l, r) => Policy::Or { left: Arc::new(to_policy(l, pools)), right: Arc::new(to_policy(r, pools)) },
        Pol::Thresh(k, s) => Policy::Threshold(*k, s.iter().map(|x| to_policy(x, pools)).collect()),
    }
}

/// Read a library policy back into the model (None if it mentions something outside the pools).
fn from_policy(p: &P, pools: &Pools) -> Option<Pol> {
    Some(match p {
        Policy::Unsatisfiable(e) => {
            let b = e.as_ref()[0];
            if *e != entropy(b) {
                return None;
            }
            Pol::Unsat(b)
        }
        Policy::Trivial => Pol::Trivial,
        Policy::Key(k) => Pol::Key(pools.keys.iter().position(|x| x.1 == *k)?),
        Policy::After(n) => Pol::After(*n),
        Policy::Older(n) => Pol::Older(*n),
        Policy::Sha256(h) => Pol::Sha(pools.pre.iter().position(|x| x.1 == *h)?),
        Policy::And { left, right } => Pol::And(Box::new(from_policy(left, pools)?), Box::new(from_policy(right, pools)?)),
        Policy::Or { left, right } => Pol::Or(Box::new(from_policy(left, pools)?), Box::new(from_policy(right, pools)?)),
        Policy::Threshold(k, s) => Pol::Thresh(*k, s.iter().map(|x| from_policy(x, pools)).collect::<Option<Vec<_>>>()?),
    })
}

/// The model's canonical form: children of and/or/threshold ordered by the model's own order.
fn canon(p: &Pol) -> Pol {
    match p {
        Pol::And(l, r) => {
            let (a, b) = (canon(l), canon(r));
            if a <= b {
                Pol::And(Box::new(a), Box::new(b))
            } else {
                Pol::And(Box::new(b), Box::new(a))
            }
        }
        Pol::Or(l, r) => {
            let (a, b) = (canon(l), canon(r));
            if a <= b {
                Pol::Or(Box::new(a), Box::new(b))
            } else {
                Pol::Or(Box::new(b), Box::new(a))
            }
        }
        Pol::Thresh(k, s) => {
            let mut v: Vec<Pol> = s.iter().map(canon).collect();
            v.sort();
            Pol::Thresh(*k, v)
        }
        x => x.clone(),
    }
}

/// Reorder commutative children at every depth.
fn permute(p: &Pol, rng: &mut Rng, changed: &mut usize) -> Pol {
    match p {
        Pol::And(l, r) | Pol::Or(l, r) => {
            let (a, b) = (permute(l, rng, changed), permute(r, rng, changed));
            let swap = rng.bool();
            if swap && a != b {
                *changed += 1;
            }
            let (a, b) = if swap { (b, a) } else { (a, b) };
            if matches!(p, Pol::And(..)) {
                Pol::And(Box::new(a), Box::new(b))
            } else {
                Pol::Or(Box::new(a), Box::new(b))
            }
        }
        Pol::Thresh(k, s) => {
            let mut v: Vec<Pol> = s.iter().map(|x| permute(x, rng, changed)).collect();
            let before = v.clone();
            rng.shuffle(&mut v);
            if before != v {
                *changed += 1;
            }
            Pol::Thresh(*k, v)
        }
        x => x.clone(),
    }
}

pub struct Avail {
    pub keys: [bool; 4],
    pub pre: [bool; 4],
}

fn truth(p: &Pol, a: &Avail, lt: &LockTruth) -> bool {
    match p {
        Pol::Unsat(_) => false,
        Pol::Trivial => true,
        Pol::Key(i) => a.keys[*i],
        Pol::Sha(i) => a.pre[*i],
        Pol::After(n) => *n <= lt.height,
        Pol::Older(n) => *n <= lt.distance,
        Pol::And(l, r) => truth(l, a, lt) && truth(r, a, lt),
        Pol::Or(l, r) => truth(l, a, lt) || truth(r, a, lt),
        Pol::Thresh(k, s) => s.iter().filter(|x| truth(x, a, lt)).count() >= *k,
    }
}

fn tally_leaves(p: &Pol, lt: &LockTruth, case: &Case) {
    match p {
        Pol::After(n) => case.count(if *n <= lt.height { "leaf.after.true" } else { "leaf.after.false" }),
        Pol::Older(n) => case.count(if *n <= lt.distance { "leaf.older.true" } else { "leaf.older.false" }),
        Pol::And(l, r) | Pol::Or(l, r) => {
            tally_leaves(l, lt, case);
            tally_leaves(r, lt, case);
        }
        Pol::Thresh(k, s) => {
            case.count(if *k == 0 { "thresh.k-zero" } else if *k == s.len() { "thresh.k-all" } else { "thresh.k-some" });
            s.iter().for_each(|x| tally_leaves(x, lt, case));
        }
        _ => {}
    }
}

fn show(p: &Pol) -> String {
    match p {
        Pol::Unsat(b) => format!("unsat{}", b),
        Pol::Trivial => "trivial".into(),
        Pol::Key(i) => format!("pk{}", i),
        Pol::Sha(i) => format!("sha{}", i),
        Pol::After(n) => format!("after({})", n),
        Pol::Older(n) => format!("older({})", n),
        Pol::And(l, r) => format!("and({},{})", show(l), show(r)),
        Pol::Or(l, r) => format!("or({},{})", show(l), show(r)),
        Pol::Thresh(k, s) => format!("thresh({},{})", k, s.iter().map(show).collect::<Vec<_>>().join(",")),
    }
}

fn depth(p: &Pol) -> usize {
    match p {
        Pol::And(l, r) | Pol::Or(l, r) => 1 + depth(l).max(depth(r)),
        Pol::Thresh(_, s) => 1 + s.iter().map(depth).max().unwrap_or(0),
        _ => 0,
    }
}

struct Sat<'b> {
    ctx: Context<'b>,
    sigs: HashMap<XOnlyPublicKey, SchnorrSig>,
    pre: HashMap<sha256::Hash, Preimage32>,
    lt: LockTruth,
    queries: std::cell::Cell<u64>,
}

impl<'b> Satisfier<'b, XOnlyPublicKey> for Sat<'b> {
    fn lookup_signature(&self, k: &XOnlyPublicKey) -> Option<SchnorrSig> {
        self.queries.set(self.queries.get() + 1);
        self.sigs.get(k).copied()
    }
    fn lookup_sha256(&self, h: &sha256::Hash) -> Option<Preimage32> {
        self.queries.set(self.queries.get() + 1);
        self.pre.get(h).copied()
    }
    fn check_older(&self, s: elements::Sequence) -> bool {
        self.queries.set(self.queries.get() + 1);
        s.0 <= self.lt.distance as u32
    }
    fn check_after(&self, l: elements::LockTime) -> bool {
        self.queries.set(self.queries.get() + 1);
        match l {
            elements::LockTime::Blocks(h) => h.to_consensus_u32() <= self.lt.height,
            elements::LockTime::Seconds(_) => false,
        }
    }
    fn inference_context(&self) -> &Context<'b> {
        &self.ctx
    }
}

/// Lock time and sequences chosen so that height and distance locks are live in many cases.
pub fn tune_locks(rng: &mut Rng, spec: &mut TxSpec) {
    spec.version = *rng.pick(&[1u32, 2, 2, 2, 2, 3, 0xffff_ffff]);
    spec.locktime = match rng.below(6) {
        0 => 0,
        1 => rng.below(1000) as u32,
        2 => 499_999_999,
        3 => 500_000_000 + rng.below(1000) as u32,
        _ => rng.below(500_000_000) as u32,
    };
    for i in spec.ins.iter_mut() {
        i.sequence = match rng.below(7) {
            0 => 0xffff_ffff,
            1 => 0xffff_fffe,
            2 => rng.below(0x10000) as u32,
            3 => rng.below(0x10000) as u32 | (1 << 22),
            4 => rng.below(0x10000) as u32 | 0x8000_0000,
            5 => (rng.below(0x10000) as u32) | ((rng.below(0x4000) as u32) << 16),
            _ => rng.next_u32(),
        };
    }
}

/// Satisfy `policy` with signatures (over the environment's sighash) for the available keys,
/// preimages for the available hashes and the true lock answers. Returns the result and the number of satisfier queries.
pub fn satisfy_with(policy: &P, pools: &Pools, avail: &Avail, lt: &LockTruth, env: &txgen::Env) -> (Result<Arc<simplicity::RedeemNode>, SatisfierError>, u64) {
    let msg = secp::Message::from_digest(env.c_tx_env().sighash_all().to_byte_array());
    Context::with_context(|ctx| {
        let mut sat = Sat { ctx, sigs: HashMap::new(), pre: HashMap::new(), lt: LockTruth { height: lt.height, distance: lt.distance }, queries: std::cell::Cell::new(0) };
        for i in 0..4 {
            if avail.keys[i] {
                let sig = SECP.with(|s| s.sign_schnorr_no_aux_rand(&msg, &pools.keys[i].0));
                sat.sigs.insert(pools.keys[i].1, SchnorrSig { sig, hash_ty: SchnorrSighashType::All });
            }
            if avail.pre[i] {
                sat.pre.insert(pools.pre[i].1, pools.pre[i].0);
            }
        }
        let r = policy.satisfy(&sat, env);
        (r, sat.queries.get())
    })
}

fn one_case(rng: &mut Rng, case: &mut Case) -> Outcome {
    let pools = gen_pools(rng);
    let mut spec = txgen::gen_tx(rng, 3, 3);
    tune_locks(rng, &mut spec);
    let lt = lock_truth(&spec);
    let max_depth = if rng.chance(1, 12) { 0 } else { rng.urange(1, 6) };
    let mut budget = rng.urange(3, 40);
    let pol = gen_pol(rng, max_depth, &lt, &mut budget);
    let policy = to_policy(&pol, &pools);
    case.desc = format!("{} ; {}", truncate(&show(&pol), 2500), txgen::describe(&spec));
    case.hash = Some(hash_str(&case.desc));

    // 1. the root computed directly, and of the compiled program
    let cmr = match guard(|| policy.cmr()) {
        Ok(c) => c,
        Err(pn) => return violated("panic:cmr", format!("{} ; {}", pn, case.desc)),
    };
    let commit = match guard(|| policy.commit()) {
        Ok(c) => c,
        Err(pn) => return violated("panic:commit", format!("{} ; {}", pn, case.desc)),
    };
    if commit.cmr() != cmr {
        return violated("cmr-direct-vs-compiled", format!("Policy::cmr {} but commit().cmr() {} ; {}", cmr, commit.cmr(), case.desc));
    }
    case.count("cmr.direct-equals-compiled");
    spec.script_cmr = cmr.to_byte_array();
    let env = match guard(|| txgen::build_env(&spec)) {
        Ok(e) => e,
        Err(pn) => return violated("panic:env-build", pn),
    };
    // the jets agree with the model about the lock truth (keeps the oracle honest)

    // 2. satisfaction under several availability patterns
    let n_pat = 4;
    let mut any_sat = false;
    for pi in 0..n_pat {
        let avail = match pi {
            0 => Avail { keys: [true; 4], pre: [true; 4] },
            1 => Avail { keys: [false; 4], pre: [false; 4] },
            _ => {
                let mut a = Avail { keys: [false; 4], pre: [false; 4] };
                for i in 0..4 {
                    a.keys[i] = rng.bool();
                    a.pre[i] = rng.bool();
                }
                a
            }
        };
        let expect = truth(&pol, &avail, &lt);
        let what = format!("available keys {:?} preimages {:?} lock height {} distance {} ; {}", avail.keys, avail.pre, lt.height, lt.distance, case.desc);
        let res = guard(|| satisfy_with(&policy, &pools, &avail, &lt, &env));
        let (res, queries) = match res {
            Ok(x) => x,
            Err(pn) => return violated("panic:satisfy", format!("{} ; {}", pn, what)),
        };
        case.add("satisfier-queries", queries);
        match (expect, res) {
            (false, Err(SatisfierError::Unsatisfiable)) => {
                case.count("satisfy.false-refused");
            }
            (false, Ok(_)) => return violated("satisfied-false-policy", format!("the policy is false under this availability but satisfy returned a program ; {}", what)),
            (false, Err(SatisfierError::AssemblyFailed(e))) => return violated("satisfy-false-assembly-error", format!("the policy is false under this availability; satisfy built a program and it failed to run ({}) instead of reporting Unsatisfiable ; {}", e, what)),
            (true, Err(e)) => return violated("satisfy-failed-on-true-policy", format!("the policy is true under this availability but satisfy returned {:?} ; {}", e, what)),
            (true, Ok(prog)) => {
                any_sat = true;
                case.count("satisfy.true-satisfied");
                if prog.cmr() != cmr {
                    return violated("cmr-satisfied-differs", format!("Policy::cmr {} but satisfied program has {} ; {}", cmr, prog.cmr(), what));
                }
                // runs in the environment, within its own bounds
                match guard(|| prog::run_machine(&prog, None, &env)) {
                    Ok(Ok((Ok(_), st))) => {
                        if st.frame_oob != 0 || st.hw_cells > st.io_width + st.extra_cells || st.hw_frames > st.extra_frames + 2 {
                            return violated("satisfied-run-exceeds-bounds", format!("{:?} ; {}", st, what));
                        }
                    }
                    Ok(Ok((Err(e), _))) => return violated("satisfied-program-fails", format!("the program returned by satisfy fails in the environment it was satisfied for: {} ; {}", e, what)),
                    Ok(Err(e)) => return violated("satisfied-machine-refused", format!("{} ; {}", e, what)),
                    Err(pn) => return violated("panic:exec-satisfied", format!("{} ; {}", pn, what)),
                }
                for d in prog.as_ref().post_order_iter::<InternalSharing>() {
                    match d.node.inner() {
                        Inner::Witness(v) if !v.is_of_type(&d.node.arrow().target) => return violated("satisfied-witness-ill-typed", format!("witness {} at node of type {} ; {}", v, d.node.arrow().target, what)),
                        Inner::Fail(_) => return violated("satisfied-keeps-fail-node", format!("a fail node survived ; {}", what)),
                        Inner::Case(..) => case.count("satisfied.case-kept"),
                        Inner::AssertL(..) | Inner::AssertR(..) => case.count("satisfied.assert"),
                        _ => {}
                    }
                }
                // the C evaluator with all anti-DoS checks accepts it
                let (pb, wb) = prog.to_vec_with_witness();
                let c = cffi::run_c(&pb, &wb, After::Eval { flags: cffi::CHECK_ALL, env: Some(env.c_tx_env()) });
                if c.err != 0 {
                    return violated(format!("c-rejects-satisfied:{}", cffi::err_name(c.err)), format!("C fails at stage `{}` with {} ; bytes {} / {} ; {}", c.stage, cffi::err_name(c.err), bits::fmt_bytes(&pb), bits::fmt_bytes(&wb), what));
                }
                if c.analysis.cmr != cmr.to_byte_array() {
                    return violated("c-cmr-differs", format!("C computes another CMR for the satisfied program ; {}", what));
                }
                match c.eval {
                    Some(0) => case.count("satisfied.c-accepts-with-all-checks"),
                    Some(e) => return violated(format!("c-eval-satisfied:{}", cffi::err_name(e)), format!("C evaluation with all anti-DoS checks returns {} ; bytes {} / {} ; {}", cffi::err_name(e), bits::fmt_bytes(&pb), bits::fmt_bytes(&wb), what)),
                    None => return Outcome::Inconclusive("C eval not reached".into()),
                }
            }
        }
    }
    tally_leaves(&pol, &lt, case);
    case.count(if any_sat { "policy.some-pattern-satisfies" } else { "policy.no-pattern-satisfies" });
    case.max("policy.max-depth", depth(&pol) as u64);

    // 3. canonical sorting
    if let Err(o) = sort_checks(rng, case, &pol, &pools) {
        return o;
    }
    if depth(&pol) == 0 {
        Outcome::Trivial
    } else {
        Outcome::Held
    }
}

fn sort_checks(rng: &mut Rng, case: &mut Case, pol: &Pol, pools: &Pools) -> Result<(), Outcome> {
    let policy = to_policy(pol, pools);
    let sorted = guard(|| policy.clone().sorted()).map_err(|pn| violated("panic:sorted", format!("{} ; {}", pn, case.desc)))?;
    let twice = sorted.clone().sorted();
    if twice != sorted {
        return Err(violated("sort-not-idempotent", format!("sorted() = {} ; sorted().sorted() = {} ; {}", sorted, twice, case.desc)));
    }
    // sorting only reorders: the model's canonical form is unchanged
    match from_policy(&sorted, pools) {
        Some(back) => {
            if canon(&back) != canon(pol) {
                return Err(violated("sort-changes-policy", format!("sorted() is not a reordering of the policy: {} ; {}", show(&back), case.desc)));
            }
        }
        None => return Err(violated("sort-changes-policy", format!("sorted() mentions keys, hashes or entropy the policy does not have: {} ; {}", sorted, case.desc))),
    }
    for _ in 0..3 {
        let mut changed = 0;
        let q = permute(pol, rng, &mut changed);
        if changed == 0 {
            continue;
        }
        case.count("sort.permutations-compared");
        case.add("sort.children-reordered", changed as u64);
        let qs = to_policy(&q, pools).sorted();
        if qs != sorted {
            return Err(violated("sort-depends-on-child-order", format!("policy {} sorts to {} ; its reordering {} sorts to {}", show(pol), sorted, show(&q), qs)));
        }
        // the root is a function of the tree as written, so a reordering may change it; the canonical forms agree
        if qs.cmr() != sorted.cmr() {
            return Err(violated("sort-cmr-differs", format!("equal sorted policies with different roots ; {}", case.desc)));
        }
    }
    Ok(())
}

/// Exhaustive small policies: every tree of depth <= 2 over a tiny leaf alphabet, all 2^(k+h) availability patterns.
fn exhaustive_case(case: &mut Case, rng: &mut Rng) -> Outcome {
    // leaves: pk0 pk1 sha0 after(h) after(h+1) older(d) trivial unsat ; connectives and/or/thresh(k of 2..3)
    let pools = gen_pools(rng);
    let mut spec = txgen::gen_tx(rng, 2, 2);
    tune_locks(rng, &mut spec);
    let lt = lock_truth(&spec);
    let leaves = [Pol::Key(0), Pol::Key(1), Pol::Sha(0), Pol::After(lt.height), Pol::After(lt.height.saturating_add(1).min(499_999_999)), Pol::Older(lt.distance), Pol::Older(lt.distance.saturating_add(1)), Pol::Trivial, Pol::Unsat(0)];
    let nl = leaves.len() as u64;
    // idx encodes: connective (0..5), three leaves
    let mut i = case.idx;
    let conn = i % 7;
    i /= 7;
    let a = leaves[(i % nl) as usize].clone();
    i /= nl;
    let b = leaves[(i % nl) as usize].clone();
    i /= nl;
    let c = leaves[(i % nl) as usize].clone();
    let pol = match conn {
        0 => Pol::And(Box::new(a), Box::new(Pol::Or(Box::new(b), Box::new(c)))),
        1 => Pol::Or(Box::new(a), Box::new(Pol::And(Box::new(b), Box::new(c)))),
        2 => Pol::Thresh(1, vec![a, b, c]),
        3 => Pol::Thresh(2, vec![a, b, c]),
        4 => Pol::Thresh(3, vec![a, b, c]),
        5 => Pol::Thresh(0, vec![a, b, c]),
        _ => Pol::Or(Box::new(Pol::Thresh(2, vec![a.clone(), b])), Box::new(Pol::And(Box::new(c), Box::new(a)))),
    };
    let policy = to_policy(&pol, &pools);
    case.desc = format!("{} ; {}", show(&pol), txgen::describe(&spec));
    case.hash = Some(hash_str(&show(&pol)));
    let cmr = policy.cmr();
    if policy.commit().cmr() != cmr {
        return violated("cmr-direct-vs-compiled", case.desc.clone());
    }
    spec.script_cmr = cmr.to_byte_array();
    let env = txgen::build_env(&spec);
    for pat in 0..8u32 {
        let avail = Avail { keys: [pat & 1 != 0, pat & 2 != 0, false, false], pre: [pat & 4 != 0, false, false, false] };
        let expect = truth(&pol, &avail, &lt);
        let what = format!("available pk0={} pk1={} sha0={} lock height {} distance {} ; {}", avail.keys[0], avail.keys[1], avail.pre[0], lt.height, lt.distance, case.desc);
        let res = guard(|| satisfy_with(&policy, &pools, &avail, &lt, &env).0);
        let res = match res {
            Ok(x) => x,
            Err(pn) => return violated("panic:satisfy", format!("{} ; {}", pn, what)),
        };
        match (expect, res) {
            (false, Err(SatisfierError::Unsatisfiable)) => case.count("satisfy.false-refused"),
            (false, Ok(_)) => return violated("satisfied-false-policy", what),
            (false, Err(e)) => return violated("satisfy-false-assembly-error", format!("{:?} ; {}", e, what)),
            (true, Err(e)) => return violated("satisfy-failed-on-true-policy", format!("{:?} ; {}", e, what)),
            (true, Ok(prog)) => {
                case.count("satisfy.true-satisfied");
                if prog.cmr() != cmr {
                    return violated("cmr-satisfied-differs", what);
                }
                match guard(|| prog::run_machine(&prog, None, &env)) {
                    Ok(Ok((Ok(_), _))) => {}
                    Ok(Ok((Err(e), _))) => return violated("satisfied-program-fails", format!("{} ; {}", e, what)),
                    Ok(Err(e)) => return violated("satisfied-machine-refused", format!("{} ; {}", e, what)),
                    Err(pn) => return violated("panic:exec-satisfied", format!("{} ; {}", pn, what)),
                }
            }
        }
    }
    if let Err(o) = sort_checks(rng, case, &pol, &pools) {
        return o;
    }
    Outcome::Held
}

pub fn run(ctx: &Ctx) {
    let t = ctx.tier;
    // 7 connective shapes x 9^3 leaf triples
    ctx.run_sub("small-policies-all-availability", Plan::enumerate(7 * 729, 0.4), |rng, case| exhaustive_case(case, rng));
    ctx.run_sub("generated-policies", Plan::sample(t.pick(24_000, 600_000), 0.55), |rng, case| one_case(rng, case));
}

#[allow(dead_code)]
fn _unused(_: Cmr) {}
