//! The vendored C implementation (libsimplicity) as an oracle, driven through simplicity-sys's
//! test-utils bindings. `evalTCOExpression` is declared here with the nine-parameter C prototype
//! (eval.h), independently of the repository's own declaration, which C14 examines.

use simplicity_sys::c_jets::c_env::elements::CTxEnv;
use simplicity_sys::ffi::{c_size_t, c_uchar, ubounded, UBOUNDED_MAX, UWORD};
use simplicity_sys::tests::ffi::bitstream::{simplicity_closeBitstream, CBitstream};
use simplicity_sys::tests::ffi::dag::{
    simplicity_computeAnnotatedMerkleRoot, simplicity_fillWitnessData, simplicity_verifyNoDuplicateIdentityHashes, CAnalyses, CCombinatorCounters, CDagNode,
};
use simplicity_sys::tests::ffi::deserialize::simplicity_decodeMallocDag;
use simplicity_sys::tests::ffi::elements::{simplicity_elements_decodeJet, simplicity_elements_mallocBoundVars};
use simplicity_sys::tests::ffi::eval::simplicity_analyseBounds;
use simplicity_sys::tests::ffi::ty::CType;
use simplicity_sys::tests::ffi::type_inference::simplicity_mallocTypeInference;
use simplicity_sys::tests::ffi::SimplicityErr;
use std::ptr;

pub const CHECK_NONE: c_uchar = 0;
pub const CHECK_ALL: c_uchar = 0xFF;

extern "C" {
    /// simplicity_err rustsimplicity_0_7_evalTCOExpression(flags_type anti_dos_checks, UWORD* output, const UWORD* input,
    ///     const dag_node* dag, type* type_dag, size_t len, ubounded minCost, const ubounded* budget, const txEnv* env);
    #[link_name = "rustsimplicity_0_7_evalTCOExpression"]
    fn c_evalTCOExpression(
        anti_dos_checks: c_uchar,
        output: *mut UWORD,
        input: *const UWORD,
        dag: *const CDagNode,
        type_dag: *mut CType,
        len: c_size_t,
        min_cost: ubounded,
        budget: *const ubounded,
        env: *const CTxEnv,
    ) -> i32;
}

struct FreeOnDrop(*mut u8);
impl Drop for FreeOnDrop {
    fn drop(&mut self) {
        unsafe { simplicity_sys::alloc::rust_0_7_free(self.0) }
    }
}

/// C error code as a plain integer (0 = ok). Codes that the Rust enum cannot represent stay integers.
pub type CErr = i32;

pub fn err_name(e: CErr) -> &'static str {
    match e {
        0 => "NoError",
        -1 => "Malloc",
        -2 => "DataOutOfRange",
        -3 => "NotYetImplemented",
        -4 => "DataOutOfOrder",
        -6 => "FailCode",
        -8 => "StopCode",
        -10 => "Hidden",
        -12 => "BitstreamEof",
        -14 => "BitstreamTrailingBytes",
        -16 => "BitstreamIllegalPadding",
        -18 => "TypeInferenceUnification",
        -20 => "TypeInferenceOccursCheck",
        -22 => "TypeInferenceNotProgram",
        -24 => "WitnessEof",
        -26 => "WitnessTrailingBytes",
        -28 => "WitnessIllegalPadding",
        -30 => "UnsharedSubexpression",
        -32 => "Cmr",
        -34 => "ExecBudget",
        -36 => "ExecMemory",
        -38 => "ExecJet",
        -40 => "ExecAssert",
        -42 => "AntiDoS",
        -44 => "HiddenRoot",
        -46 => "Amr",
        -48 => "Overweight",
        _ => "unknown",
    }
}

#[derive(Clone, Debug, Default)]
pub struct CAnalysis {
    pub len: usize,
    pub cmr: [u8; 32],
    pub amr: [u8; 32],
    pub ihr: [u8; 32],
    pub cost: u32,
    pub cells: u32,
    pub frames: u32,
    /// bit sizes of root source / target
    pub root_source_bits: u32,
    pub root_target_bits: u32,
    /// per node: (cmr, source tmr+bits, target tmr+bits, node cost)
    pub nodes: Vec<CNodeInfo>,
}

#[derive(Clone, Debug)]
pub struct CNodeInfo {
    pub cmr: [u8; 32],
    pub source_tmr: [u8; 32],
    pub target_tmr: [u8; 32],
    pub source_bits: u32,
    pub target_bits: u32,
    pub cost: u32,
}

fn midstate_bytes(m: &simplicity_sys::ffi::sha256::CSha256Midstate) -> [u8; 32] {
    let mut o = [0u8; 32];
    for i in 0..8 {
        o[4 * i..4 * i + 4].copy_from_slice(&m.s[i].to_be_bytes());
    }
    o
}

/// What to do after decoding, typing and filling witnesses.
pub enum After<'a> {
    /// compute roots and bounds; require 1 -> 1
    Analyse,
    /// additionally evaluate with the given anti-DoS flags and environment
    Eval { flags: c_uchar, env: Option<&'a CTxEnv> },
    /// only decode + type (no witness), for one-node expressions; no 1->1 requirement
    TypesOnly,
}

#[derive(Clone, Debug)]
pub struct COutcome {
    /// first failing stage's error, if any
    pub err: CErr,
    pub stage: &'static str,
    pub analysis: CAnalysis,
    /// result of evaluation if it was requested and reached
    pub eval: Option<CErr>,
}

/// Run the C pipeline on (program, witness) bytes.
pub fn run_c(program: &[u8], witness: &[u8], after: After) -> COutcome {
    let mut out = COutcome { err: 0, stage: "decode", analysis: CAnalysis::default(), eval: None };
    let mut prog_stream = CBitstream::from(program);
    let mut wit_stream = CBitstream::from(witness);
    let mut census = CCombinatorCounters::default();
    unsafe {
        let mut dag: *mut CDagNode = ptr::null_mut();
        let len = simplicity_decodeMallocDag(&mut dag, simplicity_elements_decodeJet, &mut census, &mut prog_stream);
        if len <= 0 {
            out.err = if len == 0 { -2 } else { len };
            return out;
        }
        let len = len as usize;
        let _d1 = FreeOnDrop(dag as *mut u8);
        out.analysis.len = len;
        let e = simplicity_closeBitstream(&mut prog_stream);
        if e != 0 {
            out.err = e;
            out.stage = "close-program";
            return out;
        }
        out.analysis.cmr = midstate_bytes(&(*dag.add(len - 1)).cmr);

        out.stage = "type-inference";
        let mut type_dag: *mut CType = ptr::null_mut();
        let e = simplicity_mallocTypeInference(&mut type_dag, simplicity_elements_mallocBoundVars, dag, len, &census) as i32;
        if e != 0 {
            out.err = e;
            return out;
        }
        if type_dag.is_null() {
            out.err = -1;
            return out;
        }
        let _d2 = FreeOnDrop(type_dag as *mut u8);
        // per-node info
        for i in 0..len {
            let n = &*dag.add(i);
            let (s, t) = (n.aux_types.types[0], n.aux_types.types[1]);
            let ts = &*type_dag.add(s);
            let tt = &*type_dag.add(t);
            out.analysis.nodes.push(CNodeInfo {
                cmr: midstate_bytes(&n.cmr),
                source_tmr: midstate_bytes(&ts.type_merkle_root),
                target_tmr: midstate_bytes(&tt.type_merkle_root),
                source_bits: ts.bit_size,
                target_bits: tt.bit_size,
                cost: n.cost,
            });
        }
        let root = &out.analysis.nodes[len - 1];
        out.analysis.root_source_bits = root.source_bits;
        out.analysis.root_target_bits = root.target_bits;
        if let After::TypesOnly = after {
            out.stage = "done";
            return out;
        }

        out.stage = "witness";
        let e = simplicity_fillWitnessData(dag, type_dag, len, &mut wit_stream) as i32;
        if e != 0 {
            out.err = e;
            return out;
        }
        let e = simplicity_closeBitstream(&mut wit_stream);
        if e != 0 {
            // closeBitstream reports program-stream codes; translate to the witness ones as C's callers do
            out.err = match e {
                -14 => -26,
                -16 => -28,
                x => x,
            };
            out.stage = "close-witness";
            return out;
        }

        out.stage = "amr";
        let mut analyses = vec![CAnalyses::default(); len];
        simplicity_computeAnnotatedMerkleRoot(analyses.as_mut_ptr(), dag, type_dag, len);
        out.analysis.amr = midstate_bytes(&analyses[len - 1].annotated_merkle_root);

        out.stage = "ihr";
        let mut ihr = simplicity_sys::ffi::sha256::CSha256Midstate::default();
        let e = simplicity_verifyNoDuplicateIdentityHashes(&mut ihr, dag, type_dag, len) as i32;
        if e != 0 {
            out.err = e;
            return out;
        }
        out.analysis.ihr = midstate_bytes(&ihr);

        out.stage = "bounds";
        let (mut cells, mut words, mut frames, mut cost): (ubounded, ubounded, ubounded, ubounded) = (0, 0, 0, 0);
        let e = simplicity_analyseBounds(&mut cells, &mut words, &mut frames, &mut cost, UBOUNDED_MAX, 0, UBOUNDED_MAX, dag, type_dag, len) as i32;
        if e != 0 {
            out.err = e;
            return out;
        }
        out.analysis.cost = cost;
        out.analysis.cells = cells;
        out.analysis.frames = frames;

        out.stage = "one-one";
        let rn = &*dag.add(len - 1);
        if rn.aux_types.types[0] != 0 || rn.aux_types.types[1] != 0 {
            out.err = -22;
            return out;
        }
        out.stage = "done";
        if let After::Eval { flags, env } = after {
            out.stage = "eval";
            let env_ptr = env.map(|e| e as *const CTxEnv).unwrap_or(ptr::null());
            let r = c_evalTCOExpression(flags, ptr::null_mut(), ptr::null(), dag, type_dag, len, 0, ptr::null(), env_ptr);
            out.eval = Some(r);
        }
    }
    out
}

/// Evaluate a one-node or small expression with explicit input/output buffers (C14's jet-by-jet comparison).
/// `input_bits`: padded bits of the source value. Returns (error code, output bits of the target width).
pub fn run_c_expression(program: &[u8], input_bits: &[bool], env: Option<&CTxEnv>) -> Result<(CErr, Vec<bool>, CAnalysis), COutcome> {
    let mut prog_stream = CBitstream::from(program);
    let mut census = CCombinatorCounters::default();
    unsafe {
        let mut dag: *mut CDagNode = ptr::null_mut();
        let len = simplicity_decodeMallocDag(&mut dag, simplicity_elements_decodeJet, &mut census, &mut prog_stream);
        if len <= 0 {
            return Err(COutcome { err: len, stage: "decode", analysis: CAnalysis::default(), eval: None });
        }
        let len = len as usize;
        let _d1 = FreeOnDrop(dag as *mut u8);
        let mut type_dag: *mut CType = ptr::null_mut();
        let e = simplicity_mallocTypeInference(&mut type_dag, simplicity_elements_mallocBoundVars, dag, len, &census) as i32;
        if e != 0 || type_dag.is_null() {
            return Err(COutcome { err: e, stage: "type-inference", analysis: CAnalysis::default(), eval: None });
        }
        let _d2 = FreeOnDrop(type_dag as *mut u8);
        let mut empty = CBitstream::from(&[][..]);
        let e = simplicity_fillWitnessData(dag, type_dag, len, &mut empty) as i32;
        if e != 0 {
            return Err(COutcome { err: e, stage: "witness", analysis: CAnalysis::default(), eval: None });
        }
        let rn = &*dag.add(len - 1);
        let ts = &*type_dag.add(rn.aux_types.types[0]);
        let tt = &*type_dag.add(rn.aux_types.types[1]);
        let (sb, tb) = (ts.bit_size as usize, tt.bit_size as usize);
        if sb != input_bits.len() {
            return Err(COutcome { err: -1000, stage: "input-width", analysis: CAnalysis { root_source_bits: sb as u32, ..Default::default() }, eval: None });
        }
        let mut an = CAnalysis { len, root_source_bits: sb as u32, root_target_bits: tb as u32, ..Default::default() };
        an.cmr = midstate_bytes(&rn.cmr);
        // C frame layout (frame.h): a frame of n cells over `len` UWORDs has `pad = len*UWORD_BIT - n` leading
        // padding cells; cell i lives in word `len - 1 - (pad + i) / UWORD_BIT`, bit `UWORD_BIT - 1 - (pad + i) % UWORD_BIT`.
        let uw = UWORD::BITS as usize;
        let in_words = sb.div_ceil(uw).max(1);
        let out_words = tb.div_ceil(uw).max(1);
        let mut input: Vec<UWORD> = vec![0; in_words];
        // value occupies the last `sb` bits of the array viewed as in_words*uw bits, most significant first
        let pad = in_words * uw - sb;
        for (i, b) in input_bits.iter().enumerate() {
            if *b {
                let pos = pad + i;
                input[in_words - 1 - pos / uw] |= (1 as UWORD) << (uw - 1 - pos % uw);
            }
        }
        let mut output: Vec<UWORD> = vec![0; out_words];
        let env_ptr = env.map(|e| e as *const CTxEnv).unwrap_or(ptr::null());
        let r = c_evalTCOExpression(
            CHECK_NONE,
            if tb == 0 { ptr::null_mut() } else { output.as_mut_ptr() },
            if sb == 0 { ptr::null() } else { input.as_ptr() },
            dag,
            type_dag,
            len,
            0,
            ptr::null(),
            env_ptr,
        );
        let opad = out_words * uw - tb;
        let mut bits = Vec::with_capacity(tb);
        for i in 0..tb {
            let pos = opad + i;
            bits.push((output[out_words - 1 - pos / uw] >> (uw - 1 - pos % uw)) & 1 == 1);
        }
        Ok((r, bits, an))
    }
}
