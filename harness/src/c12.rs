//! C12 — redemption programs only ever carry well-typed witnesses.

use crate::ast::{self, Op};
use crate::c01;
use crate::gen::{self, Family, GenParams};
use crate::prog;
use crate::rng::{hash_str, Rng};
use crate::runner::{guard, violated, Case, Ctx, Outcome, Plan};
use crate::ty::{self, TyParams, T};
use crate::val::{self, V};
use simplicity::dag::{DagLike, InternalSharing};
use simplicity::human_encoding::Forest;
use simplicity::jet::{Core, CoreEnv};
use simplicity::node::{Inner, RedeemNode};
use simplicity::types::Context;
use simplicity::{BitIter, Value};
use std::collections::HashMap;
use std::sync::Arc;

#[derive(Clone, Copy, Debug, PartialEq, Eq)]
enum Kind {
    Right,
    TooWide,
    TooNarrow,
    UnitValue,
    SameWidthOtherShape,
    PaddingWider,
    Random,
}

/// A candidate (value, type) for a witness node whose inferred target type is `t` and intended value `v`.
fn candidate(rng: &mut Rng, v: &V, t: &T, kind: Kind) -> (V, T) {
    match kind {
        Kind::Right => (v.clone(), t.clone()),
        Kind::TooWide => {
            let extra = ty::gen_ty(rng, &TyParams { max_width: 40, max_depth: 3, max_word_n: 5 });
            let extra = if extra.width == 0 { ty::bit() } else { extra };
            let ev = val::gen_val(rng, &extra);
            if rng.bool() {
                (V::P(Box::new(v.clone()), Box::new(ev)), ty::prod(t.clone(), extra))
            } else {
                let mut budget = 64;
                let (gv, gt) = val::grow(rng, v, t, &mut budget);
                if gt == *t {
                    (V::P(Box::new(v.clone()), Box::new(ev)), ty::prod(t.clone(), extra))
                } else {
                    (gv, gt)
                }
            }
        }
        Kind::TooNarrow => {
            let nt = val::shrink_ty(rng, t, 40);
            if nt == *t {
                (V::Unit, ty::unit())
            } else {
                (val::prune_model(v, t, &nt).unwrap(), nt)
            }
        }
        Kind::UnitValue => (V::Unit, ty::unit()),
        Kind::SameWidthOtherShape => {
            // a product of bits of the same total width
            let mut nt = ty::unit();
            for _ in 0..t.width {
                nt = ty::prod(ty::bit(), nt);
            }
            let nv = val::gen_val(rng, &nt);
            (nv, nt)
        }
        Kind::PaddingWider => {
            // t + (t * 2): one tag bit and one padding bit more
            let nt = ty::sum(t.clone(), ty::prod(t.clone(), ty::bit()));
            (V::L(Box::new(v.clone())), nt)
        }
        Kind::Random => {
            let nt = ty::gen_ty(rng, &TyParams::small());
            let nv = val::gen_val(rng, &nt);
            (nv, nt)
        }
    }
}

const KINDS: [Kind; 7] = [Kind::Right, Kind::TooWide, Kind::TooNarrow, Kind::UnitValue, Kind::SameWidthOtherShape, Kind::PaddingWider, Kind::Random];

/// Everything that must hold of a redemption program the API handed out.
fn check_redeem(r: &Arc<RedeemNode>, how: &str, case: &Case) -> Result<(), (String, String)> {
    // 1. every witness value has the inferred target type of its node
    for d in r.as_ref().post_order_iter::<InternalSharing>() {
        if let Inner::Witness(v) = d.node.inner() {
            if !v.is_of_type(&d.node.arrow().target) || ty::from_final(v.ty()) != ty::from_final(&d.node.arrow().target) {
                return Err((
                    format!("ill-typed-witness:{}", how),
                    format!("route `{}` returned a redemption program whose witness node of target type {} holds the value {} of type {}", how, d.node.arrow().target, v, v.ty()),
                ));
            }
        }
    }
    // 2. its own serialisation decodes
    let (pb, wb) = guard(|| r.to_vec_with_witness()).map_err(|p| (format!("panic:encode:{}", how), p))?;
    match guard(|| RedeemNode::decode::<_, _, Core>(BitIter::from(&pb[..]), BitIter::from(&wb[..]))) {
        Ok(Ok(r2)) => {
            let (pb2, wb2) = r2.to_vec_with_witness();
            if pb2 != pb || wb2 != wb {
                return Err((format!("own-serialisation-differs:{}", how), "decoded program re-encodes differently".into()));
            }
        }
        Ok(Err(e)) => return Err((format!("own-serialisation-rejected:{}", how), format!("route `{}`: the returned program's own serialisation fails to decode: {}", how, e))),
        Err(p) => return Err((format!("panic:decode:{}", how), p)),
    }
    // 3. execution writes nothing of the wrong width; pruning does not panic
    match guard(|| prog::run_machine(r, None, &CoreEnv::new())) {
        Ok(Ok((_res, st))) => {
            if st.frame_oob != 0 {
                return Err((format!("exec-writes-outside-frame:{}", how), format!("route `{}`: {} frame accesses outside their frame", how, st.frame_oob)));
            }
            if st.hw_cells > st.io_width + st.extra_cells {
                return Err((format!("exec-exceeds-bounds:{}", how), format!("route `{}`: {} cells used, bound {}", how, st.hw_cells, st.io_width + st.extra_cells)));
            }
        }
        Ok(Err(e)) => return Err((format!("machine-setup:{}", how), e)),
        Err(p) => return Err((format!("panic:exec:{}", how), p)),
    }
    match guard(|| r.prune(&CoreEnv::new())) {
        Ok(Ok(pruned)) => {
            for d in pruned.as_ref().post_order_iter::<InternalSharing>() {
                if let Inner::Witness(v) = d.node.inner() {
                    if !v.is_of_type(&d.node.arrow().target) {
                        return Err((format!("ill-typed-witness-after-prune:{}", how), format!("pruned program holds {} at a node of target type {}", v, d.node.arrow().target)));
                    }
                }
            }
            case.count("pruned-ok");
        }
        Ok(Err(_)) => case.count("prune-run-failed"),
        Err(p) => return Err((format!("panic:prune:{}", how), p)),
    }
    Ok(())
}

fn one_case(rng: &mut Rng, case: &mut Case) -> Outcome {
    // program without disconnect (so that the human-readable route applies too), Core jets
    let fuel = rng.urange(3, 14);
    let p = GenParams { family: Family::Core, modelled_only: true, disconnect: false, fail: false, share_pct: 0, dup_pct: 0, ..GenParams::basic(fuel) };
    let (a, b) = (ty::unit(), ty::unit());
    let mut dag = gen::gen_program(rng, &p, &a, &b);
    let typing = match prog::typing_ok_or_harness(&dag, true, None) {
        Ok(t) => t,
        Err(e) => return Outcome::Inconclusive(e),
    };
    gen::retype_witnesses(&mut dag, &typing);
    let wnodes: Vec<usize> = (0..dag.len()).filter(|i| matches!(dag.nodes[*i], Op::Witness(Some(_)))).collect();
    if wnodes.is_empty() {
        return Outcome::Trivial;
    }
    // choose a candidate kind per witness slot; at least one wrong one in 6 of 7 cases
    let mut kinds: Vec<Kind> = dag.witness.iter().map(|_| if rng.chance(1, 2) { Kind::Right } else { *rng.pick(&KINDS) }).collect();
    if rng.chance(6, 7) {
        let k = rng.usize_below(kinds.len());
        kinds[k] = *rng.pick(&KINDS[1..]);
    }
    let cands: Vec<(V, T)> = dag.witness.iter().zip(kinds.iter()).map(|((v, t), k)| candidate(rng, v, t, *k)).collect();
    let all_right = cands.iter().zip(dag.witness.iter()).all(|(c, w)| c.1 == w.1);
    let mut tf = ty::ToFinal::new();
    let lib_vals: Vec<Option<Value>> = cands.iter().map(|(v, t)| Some(val::build_ctor(v, t, &mut tf))).collect();
    case.desc = format!(
        "{} ; candidates {}",
        dag.render(),
        cands.iter().zip(kinds.iter()).map(|((v, t), k)| format!("[{:?}: {} : {}]", k, crate::runner::truncate(&val::show(v), 60), t)).collect::<Vec<_>>().join(" ")
    );
    case.hash = Some(hash_str(&case.desc));
    for k in &kinds {
        case.count(&format!("candidate.{:?}", k));
    }
    let order = ast::natural_order(&dag);

    // ---- route 1: witnesses given at construction time
    for pruned in [false, true] {
        let how = if pruned { "construct+finalize_pruned" } else { "construct+finalize_unpruned" };
        let r = guard(|| {
            Context::with_context(|ctx| {
                let inst = ast::instantiate(&dag, &ctx, &order, &lib_vals).map_err(|e| format!("constructor {}: {}", e.at, e.err))?;
                let root = inst.nodes[dag.root()].clone().unwrap();
                root.set_arrow_to_program().map_err(|e| e.to_string())?;
                Ok::<_, String>(if pruned { root.finalize_pruned(&CoreEnv::new()).map_err(|e| e.to_string()) } else { root.finalize_unpruned().map_err(|e| e.to_string()) })
            })
        });
        match r {
            Err(p) => return violated(format!("panic:{}", how), format!("{} ; {}", p, case.desc)),
            Ok(Err(e)) => return violated("well-typed-program-rejected", format!("{} ; {}", e, dag.render())),
            Ok(Ok(Err(_e))) => {
                if all_right && !pruned {
                    return violated(format!("right-typed-witness-rejected:{}", how), format!("all witnesses have the inferred types but `{}` failed: {} ; {}", how, _e, case.desc));
                }
                case.count(&format!("{}.err", how));
            }
            Ok(Ok(Ok(red))) => {
                case.count(&format!("{}.ok", how));
                if let Err((sig, d)) = check_redeem(&red, how, case) {
                    return violated(sig, format!("{} ; {}", d, case.desc));
                }
            }
        }
    }

    // ---- route 2: the human-readable witness map
    {
        let commit = match guard(|| prog::build_commit(&dag, &order, None, prog::Root::Program)) {
            Ok(Ok(c)) => c,
            Ok(Err(e)) => return violated("well-typed-program-rejected", e),
            Err(p) => return violated("panic:commit", p),
        };
        let forest = Forest::from_program(commit);
        let main = forest.roots().get("main").cloned();
        let main = match main {
            Some(m) => m,
            None => return violated("forest-no-main", "no main".to_string()),
        };
        // witness names in the same post-order as the AST's witness nodes
        let names: Vec<Arc<str>> = main.as_ref().post_order_iter::<InternalSharing>().filter(|d| matches!(d.node.inner(), Inner::Witness(_))).map(|d| d.node.name().clone()).collect();
        let post = prog::ast_post_order_mode(&dag, true);
        let ast_w: Vec<usize> = post.iter().copied().filter(|i| matches!(dag.nodes[*i], Op::Witness(_))).collect();
        if names.len() != ast_w.len() {
            return Outcome::Inconclusive(format!("harness: named forest has {} witness nodes, AST walk {}", names.len(), ast_w.len()));
        }
        let mut map: HashMap<Arc<str>, Value> = HashMap::new();
        for (name, ai) in names.iter().zip(ast_w.iter()) {
            if let Op::Witness(Some(w)) = dag.nodes[*ai] {
                if let Some(v) = &lib_vals[w] {
                    map.insert(name.clone(), v.clone());
                }
            }
        }
        for pruned in [false, true] {
            let how = if pruned { "witness-map+finalize_pruned" } else { "witness-map+finalize_unpruned" };
            let r = guard(|| {
                Context::with_context(|ctx| {
                    let node = forest.to_witness_node(&ctx, &map).ok_or_else(|| "no main".to_string())?;
                    Ok::<_, String>(if pruned { node.finalize_pruned(&CoreEnv::new()).map_err(|e| e.to_string()) } else { node.finalize_unpruned().map_err(|e| e.to_string()) })
                })
            });
            match r {
                Err(p) => return violated(format!("panic:{}", how), format!("{} ; {}", p, case.desc)),
                Ok(Err(e)) => return violated("forest-to-witness-node", e),
                Ok(Ok(Err(_))) => case.count(&format!("{}.err", how)),
                Ok(Ok(Ok(red))) => {
                    case.count(&format!("{}.ok", how));
                    if let Err((sig, d)) = check_redeem(&red, how, case) {
                        return violated(sig, format!("{} ; {}", d, case.desc));
                    }
                }
            }
        }
    }
    Outcome::Held
}

/// Route 3: whatever the decoder returns satisfies the invariant.
fn decode_case(rng: &mut Rng, case: &mut Case) -> Outcome {
    let fuel = rng.urange(2, 14);
    let (dag, _) = match c01::make_program(rng, Family::Core, fuel, false) {
        Ok(x) => x,
        Err(e) => return Outcome::Inconclusive(e),
    };
    if dag.nodes.iter().any(|o| matches!(o, Op::Disconnect(_, None))) || !dag.nodes.iter().any(|o| matches!(o, Op::Witness(_))) {
        return Outcome::Trivial;
    }
    let wits = match prog::witness_values(&dag, rng, false) {
        Ok(w) => w,
        Err(e) => return violated("witness-history-failed", e),
    };
    let order = ast::natural_order(&dag);
    let r = match guard(|| prog::build_redeem(&dag, &order, &wits, None, prog::Root::Program)) {
        Ok(Ok(r)) => r,
        _ => return Outcome::Trivial,
    };
    let (pb, mut wb) = r.to_vec_with_witness();
    // random witness bytes of the same length: still decodes (or is rejected), and what comes out is well-typed
    if rng.bool() {
        for b in wb.iter_mut() {
            *b = rng.next_u64() as u8;
        }
    }
    case.desc = format!("{} ; witness bytes {}", dag.render(), crate::bits::fmt_bytes(&wb));
    case.hash = Some(hash_str(&case.desc));
    match guard(|| RedeemNode::decode::<_, _, Core>(BitIter::from(&pb[..]), BitIter::from(&wb[..]))) {
        Ok(Ok(dec)) => {
            for d in dec.as_ref().post_order_iter::<InternalSharing>() {
                if let Inner::Witness(v) = d.node.inner() {
                    if ty::from_final(v.ty()) != ty::from_final(&d.node.arrow().target) {
                        return violated("ill-typed-witness:decode", format!("decoded witness {} : {} at node of target type {}", v, v.ty(), d.node.arrow().target));
                    }
                }
            }
            case.count("decode.ok");
            Outcome::Held
        }
        Ok(Err(_)) => {
            case.count("decode.err");
            Outcome::Held
        }
        Err(p) => violated("panic:decode", p),
    }
}

pub fn run(ctx: &Ctx) {
    let t = ctx.tier;
    ctx.run_sub("construction-and-map-routes", Plan::sample(t.pick(150_000, 1_000_000), 0.6), one_case);
    ctx.run_sub("decode-route", Plan::sample(t.pick(50_000, 400_000), 0.25), decode_case);
    // pruning re-types witnesses: programs with heavy node sharing between pruned-away and live code (the C08
    // generator), where every witness of the pruned program must be of its node's type and the program must survive
    // its own encoding
    ctx.run_sub("pruned-shared-programs", Plan::sample(t.pick(60_000, 600_000), 0.15), |rng, case| crate::c08::one_case(rng, case, crate::gen::Family::None));
}
