//! C02 — the decoder is total and accepts only the canonical encoding.

use crate::alloc;
use crate::ast::Op;
use crate::bits::{self, Bits};
use crate::c01;
use crate::enc::{self, ENode};
use crate::gen::Family;
use crate::prog::{self, Root};
use crate::rng::{hash_bytes, Rng};
use crate::runner::{guard, violated, Case, Ctx, Outcome, Plan};
use simplicity::jet::{Core, Elements};
use simplicity::node::{CommitNode, ConstructNode, RedeemNode};
use simplicity::types::Context;
use simplicity::BitIter;
use std::time::Instant;

#[derive(Clone, Copy, Debug, PartialEq, Eq)]
pub enum Dec {
    Redeem,
    Commit,
    Construct,
}

pub enum Res {
    /// re-encoding of the decoded program (program bytes, witness bytes if any)
    Ok(Vec<u8>, Option<Vec<u8>>),
    Err(String),
}

pub struct Obs {
    pub res: Res,
    pub peak: usize,
    pub largest: usize,
    pub micros: u128,
}

const MAX_DISPLAY: usize = 1 << 20;

pub fn observe(dec: Dec, fam: Family, p: &[u8], w: &[u8]) -> Result<Obs, String> {
    let start = alloc::window_start();
    let t0 = Instant::now();
    let res = guard(|| -> Result<Res, String> {
        macro_rules! go {
            ($J:ty) => {
                match dec {
                    Dec::Redeem => match RedeemNode::decode::<_, _, $J>(BitIter::from(p), BitIter::from(w)) {
                        Ok(r) => {
                            let (a, b) = r.to_vec_with_witness();
                            Ok(Res::Ok(a, Some(b)))
                        }
                        Err(e) => {
                            let s = e.to_string();
                            if s.len() > MAX_DISPLAY {
                                return Err(format!("error display of {} bytes", s.len()));
                            }
                            Ok(Res::Err(format!("{:.60}", s)))
                        }
                    },
                    Dec::Commit => match CommitNode::decode::<_, $J>(BitIter::from(p)) {
                        Ok(r) => Ok(Res::Ok(r.to_vec_without_witness(), None)),
                        Err(e) => {
                            let s = e.to_string();
                            if s.len() > MAX_DISPLAY {
                                return Err(format!("error display of {} bytes", s.len()));
                            }
                            Ok(Res::Err(format!("{:.60}", s)))
                        }
                    },
                    Dec::Construct => Context::with_context(|ctx| match ConstructNode::decode::<_, $J>(&ctx, BitIter::from(p)) {
                        Ok(_) => Ok(Res::Ok(vec![], None)),
                        Err(e) => {
                            let s = e.to_string();
                            if s.len() > MAX_DISPLAY {
                                return Err(format!("error display of {} bytes", s.len()));
                            }
                            Ok(Res::Err(format!("{:.60}", s)))
                        }
                    }),
                }
            };
        }
        match fam {
            Family::Elements => go!(Elements),
            _ => go!(Core),
        }
    });
    let micros = t0.elapsed().as_micros();
    let (peak, largest) = alloc::window_end(start);
    match res {
        Ok(Ok(r)) => Ok(Obs { res: r, peak, largest, micros }),
        Ok(Err(e)) => Err(e),
        Err(p) => Err(format!("panic: {}", p)),
    }
}

fn error_class(s: &str) -> &'static str {
    // coarse classes, for the evidence histogram only
    let t = s.to_ascii_lowercase();
    if t.contains("canonical order") {
        "not-canonical-order"
    } else if t.contains("maximal sharing") {
        "sharing-not-maximal"
    } else if t.contains("both children") {
        "both-children-hidden"
    } else if t.contains("hidden node") {
        "hidden-outside-case"
    } else if t.contains("trailing bytes") {
        "trailing-bytes"
    } else if t.contains("not all zero") {
        "illegal-padding"
    } else if t.contains("ended early") {
        "end-of-stream"
    } else if t.contains("exceeded 31 bits") {
        "natural-overflow"
    } else if t.contains("backreference") {
        "bad-index"
    } else if t.contains("unrecognized jet") {
        "invalid-jet"
    } else if t.contains("infinitely-sized") {
        "occurs-check"
    } else if t.contains("failed to apply bound") || t.contains("unify unequal") {
        "type-error"
    } else if t.contains("disconnect node had one child") {
        "disconnect-redeem-time"
    } else {
        "other"
    }
}

/// Judge one (decoder, input). `must_reject`: a hand-assembled canonicity violation.
fn judge(dec: Dec, fam: Family, p: &[u8], w: &[u8], must_reject: Option<&str>, case: &Case) -> Result<bool, (String, String)> {
    let dn = format!("{:?}/{:?}", dec, fam);
    let inp = || format!("program {} witness {}", crate::runner::truncate(&bits::fmt_bytes(p), 400), crate::runner::truncate(&bits::fmt_bytes(w), 200));
    let obs = match observe(dec, fam, p, w) {
        Ok(o) => o,
        Err(e) => return Err((format!("decoder-{}:{}", if e.starts_with("panic") { "panic" } else { "misc" }, dn), format!("{} on {}", e, inp()))),
    };
    // wall-clock time is telemetry only (max-decode-us); a decoder that never returns is caught by the driver's watchdog
    let len = (p.len() + w.len()) as u128;
    let alloc_budget = (64usize << 20) + 8192 * (p.len() + w.len());
    if obs.peak > alloc_budget || obs.largest > alloc_budget {
        return Err((format!("decoder-alloc:{}", dn), format!("peak {} bytes / largest request {} bytes for {} input bytes (budget {}) ; {}", obs.peak, obs.largest, len, alloc_budget, inp())));
    }
    case.max("max-peak-bytes", obs.peak as u64);
    case.max("max-decode-us", obs.micros as u64);
    match &obs.res {
        Res::Err(e) => {
            case.count(&format!("reject.{}", error_class(e)));
            if let Some(rule) = must_reject {
                case.count(&format!("rule.{}.rejected-as.{}", rule, error_class(e)));
            }
            Ok(false)
        }
        Res::Ok(rp, rw) => {
            case.count(&format!("accept.{:?}", dec));
            if let Some(rule) = must_reject {
                return Err((format!("non-canonical-accepted:{}:{:?}", rule, dec), format!("{} accepted an encoding that violates `{}` ; {}", dn, rule, inp())));
            }
            // whatever is accepted must also be syntactically readable by the reference parser
            let all = bits::bits_of_bytes(p);
            let parsed = enc::parse_list(&all, fam).map_err(|e| (format!("accepted-unparsable:{:?}", dec), format!("{} accepted bytes the reference parser rejects ({:?}) ; {}", dn, e, inp())))?;
            match dec {
                Dec::Redeem => {
                    if rp != p || rw.as_deref() != Some(w) {
                        return Err((
                            "non-canonical-accepted:reencode:Redeem".into(),
                            format!("{} accepted input that re-encodes differently: {} / {} ; input {}", dn, bits::fmt_bytes(rp), bits::fmt_bytes(rw.as_deref().unwrap_or(&[])), inp()),
                        ));
                    }
                }
                Dec::Commit => {
                    let has_branch = parsed.list.iter().any(|n| matches!(n, ENode::Op(Op::Disconnect(_, Some(_)))));
                    if !has_branch && rp != p {
                        return Err(("non-canonical-accepted:reencode:Commit".into(), format!("{} accepted input that re-encodes as {} ; input {}", dn, bits::fmt_bytes(rp), inp())));
                    }
                }
                Dec::Construct => {}
            }
            Ok(true)
        }
    }
}

fn all_decoders(fam: Family) -> Vec<(Dec, Family)> {
    vec![(Dec::Redeem, fam), (Dec::Commit, fam), (Dec::Construct, fam)]
}

fn valid_encoding(rng: &mut Rng, fam: Family, witness: bool) -> Option<(Vec<u8>, Vec<u8>)> {
    let fuel = rng.urange(2, 14);
    let (mut dag, _) = c01::make_program(rng, fam, fuel, false).ok()?;
    if !witness && dag.nodes.iter().any(|o| matches!(o, Op::Witness(_))) {
        return None;
    }
    if dag.nodes.iter().any(|o| matches!(o, Op::Disconnect(_, None))) {
        return None;
    }
    let _ = &mut dag;
    let wits = prog::witness_values(&dag, rng, false).ok()?;
    let order = crate::ast::natural_order(&dag);
    let r = prog::build_redeem(&dag, &order, &wits, None, Root::Program).ok()?;
    Some(r.to_vec_with_witness())
}

fn mutate_bytes(rng: &mut Rng, b: &mut Vec<u8>) {
    match rng.below(7) {
        0 if !b.is_empty() => {
            let i = rng.usize_below(b.len());
            b[i] ^= 1 << rng.below(8);
        }
        1 if !b.is_empty() => {
            let n = rng.usize_below(b.len());
            b.truncate(n);
        }
        2 => {
            let n = rng.urange(1, 9);
            b.extend(rng.bytes(n));
        }
        3 if b.len() > 2 => {
            let i = rng.usize_below(b.len());
            let j = rng.usize_below(b.len());
            b.swap(i, j);
        }
        4 if !b.is_empty() => {
            let i = rng.usize_below(b.len());
            b[i] = rng.next_u64() as u8;
        }
        5 if !b.is_empty() => {
            let i = rng.usize_below(b.len());
            b.insert(i, rng.next_u64() as u8);
        }
        _ if !b.is_empty() => {
            let i = rng.usize_below(b.len());
            b.remove(i);
        }
        _ => b.push(rng.next_u64() as u8),
    }
}

/// Hand-assembled encodings violating exactly one rule. Returns (rule, program bytes, witness bytes).
fn assemble_violation(rng: &mut Rng, fam: Family, rule: u64) -> Option<(&'static str, Vec<u8>, Vec<u8>)> {
    let h = |rng: &mut Rng| {
        let mut x = [0u8; 32];
        rng.fill(&mut x);
        x
    };
    let pack = |list: &[ENode]| bits::bytes_of_bits(&enc::encode_list(list));
    let op = |o: Op| ENode::Op(o);
    match rule {
        0 => {
            // unused leading node
            let (p, w) = valid_encoding(rng, fam, true)?;
            let parsed = enc::parse_list(&bits::bits_of_bytes(&p), fam).ok()?;
            let mut list = vec![op(if rng.bool() { Op::Iden } else { Op::Unit })];
            // absolute indices shift by one
            for n in &parsed.list {
                list.push(match n {
                    ENode::Hidden(x) => ENode::Hidden(*x),
                    ENode::Op(o) => ENode::Op(crate::ast::remap(o, &(0..parsed.list.len() + 1).map(|k| k + 1).collect::<Vec<_>>())),
                });
            }
            Some(("unused-node", pack(&list), w))
        }
        1 => {
            // swapped sibling order: pair(x, y) of two fresh leaves emitted as y, x
            let x = op(Op::Iden);
            let y = op(Op::Unit);
            // canonical: 0:iden 1:unit 2:pair(0,1) 3:unit' 4:comp(2,3)   (1 -> (1*1) -> 1)
            let list = vec![y, x, op(Op::Pair(1, 0)), op(Op::Take(0)), op(Op::Comp(2, 3))];
            Some(("swapped-siblings", pack(&list), vec![]))
        }
        2 => {
            // duplicated (unshared) expression: comp(r, copy of r), witness bits repeated
            let (p, w) = valid_encoding(rng, fam, false)?;
            let parsed = enc::parse_list(&bits::bits_of_bytes(&p), fam).ok()?;
            let n = parsed.list.len();
            let mut list = parsed.list.clone();
            for nd in &parsed.list {
                list.push(match nd {
                    ENode::Hidden(x) => ENode::Hidden(*x),
                    ENode::Op(o) => ENode::Op(crate::ast::remap(o, &(0..n).map(|k| k + n).collect::<Vec<_>>())),
                });
            }
            list.push(op(Op::Comp(n - 1, 2 * n - 1)));
            Some(("unshared-duplicate", pack(&list), w))
        }
        3 if rng.chance(2, 3) => {
            // k hidden nodes, a later one repeating an earlier one (the others in between, in random hash order)
            use crate::ast::Dag;
            let k = rng.urange(2, 7);
            let mut d = Dag::default();
            let ua = d.push(Op::Unit);
            let l = d.push(Op::InjL(ua));
            let p = d.push(Op::Pair(l, ua));
            let mut branches: Vec<usize> = Vec::new();
            let mut acc: Option<usize> = None;
            for i in 0..k {
                // distinct expressions of type 1*1 -> 1, sharing what they have in common
                let b = match i {
                    0 => d.push(Op::Unit),
                    1 => d.push(Op::Take(ua)),
                    2 => d.push(Op::Drop(ua)),
                    _ => d.push(Op::Comp(branches[i - 2], ua)),
                };
                branches.push(b);
                let mut hh = h(rng);
                hh[0] = hh[0].wrapping_add(i as u8); // distinct with certainty
                let a = d.push(Op::AssertL(b, hh));
                let c = d.push(Op::Comp(p, a));
                acc = Some(match acc {
                    None => c,
                    Some(prev) => d.push(Op::Comp(prev, c)),
                });
            }
            let mut list = enc::list_of_dag(&d);
            let hidden_at: Vec<usize> = list.iter().enumerate().filter(|(_, n)| matches!(n, ENode::Hidden(_))).map(|(i, _)| i).collect();
            let m = rng.urange(1, hidden_at.len() - 1);
            let j = rng.usize_below(m);
            if let ENode::Hidden(x) = list[hidden_at[j]].clone() {
                list[hidden_at[m]] = ENode::Hidden(x);
            }
            Some(("repeated-hidden", pack(&list), vec![]))
        }
        3 => {
            // repeated hidden node (same CMR listed twice)
            let hh = h(rng);
            let list = vec![
                op(Op::Unit),
                op(Op::InjL(0)),
                op(Op::Pair(1, 0)),
                op(Op::Unit),
                ENode::Hidden(hh),
                op(Op::Case(3, 4)),
                op(Op::Comp(2, 5)),
                op(Op::Drop(0)),
                ENode::Hidden(hh),
                op(Op::Case(7, 8)),
                op(Op::Comp(2, 9)),
                op(Op::Comp(6, 10)),
            ];
            Some(("repeated-hidden", pack(&list), vec![]))
        }
        4 => {
            // hidden node outside a case
            let list = match rng.below(3) {
                0 => vec![ENode::Hidden(h(rng)), op(Op::InjL(0)), op(Op::Unit), op(Op::Comp(1, 2))],
                1 => vec![op(Op::Unit), ENode::Hidden(h(rng)), op(Op::Comp(0, 1))],
                _ => vec![op(Op::Unit), ENode::Hidden(h(rng)), op(Op::Pair(0, 1)), op(Op::Unit), op(Op::Comp(2, 3))],
            };
            Some(("hidden-outside-case", pack(&list), vec![]))
        }
        5 => {
            let list = vec![op(Op::Unit), op(Op::InjL(0)), op(Op::Pair(1, 0)), ENode::Hidden(h(rng)), ENode::Hidden(h(rng)), op(Op::Case(3, 4)), op(Op::Comp(2, 5))];
            Some(("both-children-hidden", pack(&list), vec![]))
        }
        6 => {
            let (mut p, w) = valid_encoding(rng, fam, true)?;
            p.push(0);
            Some(("trailing-zero-byte", p, w))
        }
        7 => {
            let (mut p, w) = valid_encoding(rng, fam, true)?;
            let used = enc::parse_list(&bits::bits_of_bytes(&p), fam).ok()?.bits_used;
            if used % 8 == 0 {
                return None;
            }
            let free = 8 - used % 8;
            let i = p.len() - 1;
            p[i] |= 1 << rng.usize_below(free);
            Some(("nonzero-padding-bit", p, w))
        }
        8 => {
            // word of "length 33": 1 0 natural(33) then plenty of bits
            let mut b: Bits = Vec::new();
            bits::encode_natural(2, &mut b); // two nodes
            b.extend([true, false]);
            bits::encode_natural(33, &mut b);
            for _ in 0..200 {
                b.push(rng.bool());
            }
            Some(("word-length-33", bits::bytes_of_bits(&b), vec![]))
        }
        9 => {
            // a length prefix / back-reference of 2^31 or more
            let mut b: Bits = Vec::new();
            let big = (1u64 << 31) + rng.below(1 << 20);
            if rng.bool() {
                bits::encode_natural(big, &mut b);
            } else {
                bits::encode_natural(3, &mut b);
                b.extend([false, true, false, false, true]); // unit
                b.extend([false, false, true, false, false]); // injl
                bits::encode_natural(big, &mut b);
            }
            for _ in 0..64 {
                b.push(false);
            }
            Some(("natural-2^31", bits::bytes_of_bits(&b), vec![]))
        }
        10 => {
            // back-reference one past the start
            let mut b: Bits = Vec::new();
            bits::encode_natural(3, &mut b);
            b.extend([false, true, false, false, true]); // 0: unit
            b.extend([false, false, true, false, false]); // 1: injl(ref = 2) -> points at index -1
            bits::encode_natural(2, &mut b);
            b.extend([false, true, false, false, true]);
            Some(("back-reference-past-start", bits::bytes_of_bits(&b), vec![]))
        }
        11 => {
            let (p, mut w) = valid_encoding(rng, fam, true)?;
            if rng.bool() || w.is_empty() {
                w.push(0);
                Some(("witness-extra-byte", p, w))
            } else {
                w.pop();
                Some(("witness-short", p, w))
            }
        }
        12 => {
            // two witness nodes of one type holding one value, written as two nodes under a parent that is not itself
            // duplicated: pair(w, w') ; eq_N ; unit. At redemption time they have one identity root and must be shared.
            let jets = crate::gen::jets_of(fam);
            let n = *rng.pick(&[8usize, 16, 32, 64]);
            let eq = jets.iter().find(|j| j.jet.name() == format!("eq_{}", n))?;
            let list = vec![op(Op::Witness(None)), op(Op::Witness(None)), op(Op::Pair(0, 1)), op(Op::Jet(eq.jet)), op(Op::Comp(2, 3)), op(Op::Unit), op(Op::Comp(4, 5))];
            let v = rng.bytes(n / 8);
            let mut w = v.clone();
            w.extend(&v);
            Some(("duplicate-witness", pack(&list), w))
        }
        _ => None,
    }
}

/// Deep well-typed chains as encodings.
fn depth_bytes(fam: u64, n: usize) -> Vec<u8> {
    let op = |o: Op| ENode::Op(o);
    let mut list: Vec<ENode> = Vec::new();
    match fam {
        0 => {
            // comp (pair (injl unit) unit) (comp (case (drop injl^n unit) (drop injl^n iden)) unit'), sharing unit and injl unit
            list.push(op(Op::Unit)); // 0
            list.push(op(Op::InjL(0))); // 1
            list.push(op(Op::Pair(1, 0))); // 2
            let mut l = 1;
            for _ in 1..n {
                list.push(op(Op::InjL(l)));
                l = list.len() - 1;
            }
            list.push(op(Op::Drop(l)));
            let dl = list.len() - 1;
            list.push(op(Op::Iden));
            let mut r = list.len() - 1;
            for _ in 0..n {
                list.push(op(Op::InjL(r)));
                r = list.len() - 1;
            }
            list.push(op(Op::Drop(r)));
            let dr = list.len() - 1;
            list.push(op(Op::Case(dl, dr)));
            let c = list.len() - 1;
            list.push(op(Op::Unit));
            let u2 = list.len() - 1;
            list.push(op(Op::Comp(c, u2)));
            let c2 = list.len() - 1;
            list.push(op(Op::Comp(2, c2)));
        }
        1 => {
            // comp (injl^n unit) unit'
            list.push(op(Op::Unit));
            let mut l = 0;
            for _ in 0..n {
                list.push(op(Op::InjL(l)));
                l = list.len() - 1;
            }
            list.push(op(Op::Unit));
            let u = list.len() - 1;
            list.push(op(Op::Comp(l, u)));
        }
        3 => {
            // comp (pair^n tower) (comp iden unit) : two frames of width 2^n (bounds arithmetic beyond usize)
            list.push(op(Op::Unit));
            list.push(op(Op::InjL(0)));
            let mut l = 1;
            for _ in 0..n {
                list.push(op(Op::Pair(l, l)));
                l = list.len() - 1;
            }
            list.push(op(Op::Iden));
            let i = list.len() - 1;
            list.push(op(Op::Unit));
            let u = list.len() - 1;
            list.push(op(Op::Comp(i, u)));
            let c = list.len() - 1;
            list.push(op(Op::Comp(l, c)));
        }
        _ => {
            // comp (pair^n tower) unit : types double at every level (width 2^n)
            list.push(op(Op::Unit));
            list.push(op(Op::InjL(0)));
            let mut l = 1;
            for _ in 0..n {
                list.push(op(Op::Pair(l, l)));
                l = list.len() - 1;
            }
            list.push(op(Op::Unit));
            let u = list.len() - 1;
            list.push(op(Op::Comp(l, u)));
        }
    }
    bits::bytes_of_bits(&enc::encode_list(&list))
}

pub fn run(ctx: &Ctx) {
    let t = ctx.tier;
    // depth stress first (a crash is attributed through the progress hint)
    let depths = [100usize, 1_000, 10_000, 20_000, 40_000, 80_000, 200_000, 1_000_000];
    let probe_depth = ctx.param_u64("depth", 0);
    let probe_fam = ctx.param_u64("fam", 0);
    ctx.run_sub("depth-stress", Plan::enumerate(2 * depths.len() as u64 + 12, 0.1), |_rng, case| {
        let (fam, d) = if (case.idx as usize) < 2 * depths.len() {
            (case.idx % 2, depths[(case.idx / 2) as usize])
        } else {
            let k = case.idx as usize - 2 * depths.len();
            (2 + (k / 6) as u64, [10usize, 30, 62, 63, 64, 200][k % 6])
        };
        let (fam, d) = if probe_depth > 0 { (probe_fam, probe_depth as usize) } else { (fam, d) };
        let fname = ["deep-sum-unify", "deep-chain", "pair-tower", "pair-tower-two-comps"][fam as usize];
        case.hint(&format!("family={} depth={}", fname, d));
        let p = depth_bytes(fam, d);
        case.desc = format!("family {} depth {} ({} bytes)", fname, d, p.len());
        case.hash = Some(case.idx);
        for (dec, f) in all_decoders(Family::Core) {
            match judge(dec, f, &p, &[], None, case) {
                Ok(acc) => {
                    if acc {
                        case.count(&format!("depth.{}.accepted", fname));
                    }
                }
                Err((sig, d)) => return violated(sig, d),
            }
        }
        Outcome::Held
    });
    // stress shapes (occurs-check seeds, doubling towers whose widths saturate, towers over free types followed by a
    // clash, deep unary chains), written with the reference encoder: ill-typed ones must be refused, nothing may panic
    ctx.run_sub("special-shapes-encoded", Plan::sample(t.pick(4_000, 200_000), 0.08), |rng, case| {
        let kind = rng.below(crate::gen::SPECIAL_KINDS);
        let depth = rng.urange(0, 70);
        let dag = crate::gen::special_dag(rng, kind, depth);
        let ill_typed = crate::ast::infer(&dag, true, None).is_err();
        let p = bits::bytes_of_bits(&enc::encode_list(&enc::list_of_dag(&dag)));
        case.desc = format!("special kind {} depth {} ({}) : program {}", kind, depth, if ill_typed { "ill-typed" } else { "well-typed" }, crate::runner::truncate(&bits::fmt_bytes(&p), 300));
        case.hash = Some(hash_bytes(&p));
        case.count(if ill_typed { "special.ill-typed" } else { "special.well-typed" });
        for (dec, f) in [(Dec::Commit, Family::Core), (Dec::Redeem, Family::Core)] {
            match judge(dec, f, &p, &[], if ill_typed { Some("ill-typed") } else { None }, case) {
                Ok(true) => case.count("special.accepted"),
                Ok(false) => {}
                Err((sig, d)) => return violated(sig, d),
            }
        }
        Outcome::Held
    });
    ctx.run_sub("hand-assembled-violations", Plan::sample(t.pick(6_000, 300_000), 0.2), |rng, case| {
        let rule = case.idx % 13;
        let fam = if rng.bool() { Family::Core } else { Family::Elements };
        let (name, p, w) = match assemble_violation(rng, fam, rule) {
            Some(x) => x,
            None => return Outcome::Trivial,
        };
        case.desc = format!("{}: program {} witness {}", name, crate::runner::truncate(&bits::fmt_bytes(&p), 300), crate::runner::truncate(&bits::fmt_bytes(&w), 100));
        case.hash = Some(hash_bytes(&p) ^ hash_bytes(&w));
        let decs: Vec<(Dec, Family)> = match name {
            // witness-stream rules concern the redemption-time decoder only
            "witness-extra-byte" | "witness-short" => vec![(Dec::Redeem, fam)],
            // sharing is only checked by the program decoders
            "unshared-duplicate" => vec![(Dec::Redeem, fam), (Dec::Commit, fam)],
            // witness nodes have an identity root only at redemption time
            "duplicate-witness" => vec![(Dec::Redeem, fam)],
            _ => all_decoders(fam),
        };
        for (dec, f) in decs {
            // ConstructNode::decode does not type the root or check sharing; canonical-order and syntax rules still apply
            let must = match (dec, name) {
                (Dec::Construct, "unshared-duplicate") => None,
                _ => Some(name),
            };
            if let Err((sig, d)) = judge(dec, f, &p, &w, must, case) {
                return violated(sig, d);
            }
        }
        Outcome::Held
    });
    ctx.run_sub("mutated-valid-encodings", Plan::sample(t.pick(25_000, 2_000_000), 0.35), |rng, case| {
        let fam = if rng.bool() { Family::Core } else { Family::Elements };
        let (mut p, mut w) = match valid_encoding(rng, fam, true) {
            Some(x) => x,
            None => return Outcome::Trivial,
        };
        // the unmutated encoding must be accepted and stable
        if rng.chance(1, 8) {
            match judge(Dec::Redeem, fam, &p, &w, None, case) {
                Ok(true) => case.count("valid-accepted"),
                Ok(false) => return violated("canonical-rejected", format!("the library's own encoding {} / {} is rejected", bits::fmt_bytes(&p), bits::fmt_bytes(&w))),
                Err((sig, d)) => return violated(sig, d),
            }
        }
        for _ in 0..rng.urange(1, 3) {
            if rng.chance(3, 4) || w.is_empty() {
                mutate_bytes(rng, &mut p);
            } else {
                mutate_bytes(rng, &mut w);
            }
        }
        case.desc = format!("program {} witness {}", crate::runner::truncate(&bits::fmt_bytes(&p), 300), crate::runner::truncate(&bits::fmt_bytes(&w), 100));
        case.hash = Some(hash_bytes(&p) ^ hash_bytes(&w).rotate_left(7));
        for (dec, f) in all_decoders(fam) {
            if let Err((sig, d)) = judge(dec, f, &p, &w, None, case) {
                return violated(sig, d);
            }
        }
        Outcome::Held
    });
    ctx.run_sub("random-bytes", Plan::sample(t.pick(60_000, 6_000_000), 0.25), |rng, case| {
        let lp = 1 + rng.skewed(64);
        let mut p = rng.bytes(lp);
        // bias the length prefix towards small node counts so that nodes are actually decoded
        if rng.chance(2, 3) {
            let n = rng.range(1, 12);
            let mut b = bits::natural_bits(n);
            b.extend(bits::bits_of_bytes(&p));
            p = bits::bytes_of_bits(&b);
        }
        let lw = rng.skewed(16);
        let w = rng.bytes(lw);
        let fam = if rng.bool() { Family::Core } else { Family::Elements };
        case.desc = format!("program {} witness {}", bits::fmt_bytes(&p), bits::fmt_bytes(&w));
        case.hash = Some(hash_bytes(&p) ^ hash_bytes(&w).rotate_left(9));
        for (dec, f) in all_decoders(fam) {
            if let Err((sig, d)) = judge(dec, f, &p, &w, None, case) {
                return violated(sig, d);
            }
        }
        Outcome::Held
    });
}
