//! AST: the harness's term language, stored as a DAG with explicit sharing, plus
//!   * M-infer — reference type inference (work-list unification, occurs check by colouring),
//!   * M-cmr   — commitment roots hashed from scratch (tag strings -> midstates -> compressions),
//!   * instantiation into a library `types::Context`, children first, in a chosen topological order.

use crate::bits;
use crate::rng::Rng;
use crate::sha;
use crate::ty::{self, Kind, T};
use crate::val::{self, V};
use simplicity::jet::{Core, Elements, Jet};
use simplicity::node::{ConstructNode, CoreConstructible, DisconnectConstructible, WitnessConstructible};
use simplicity::types::{self, Context};
use simplicity::{Cmr, FailEntropy, Value, Word};
use std::collections::HashMap;
use std::sync::Arc;

#[derive(Clone, Copy, Debug, PartialEq, Eq, Hash)]
pub enum JetRef {
    Core(Core),
    Elements(Elements),
}

impl JetRef {
    pub fn as_dyn(&self) -> &dyn Jet {
        match self {
            JetRef::Core(j) => j,
            JetRef::Elements(j) => j,
        }
    }
    pub fn name(&self) -> String {
        match self {
            JetRef::Core(j) => format!("{}", j),
            JetRef::Elements(j) => format!("{}", j),
        }
    }
    pub fn source(&self) -> T {
        ty::from_final(&self.as_dyn().source_ty().to_final())
    }
    pub fn target(&self) -> T {
        ty::from_final(&self.as_dyn().target_ty().to_final())
    }
    pub fn cmr(&self) -> [u8; 32] {
        self.as_dyn().cmr().to_byte_array()
    }
}

#[derive(Clone, Debug, PartialEq, Eq, Hash)]
pub enum Op {
    Iden,
    Unit,
    InjL(usize),
    InjR(usize),
    Take(usize),
    Drop(usize),
    Comp(usize, usize),
    Case(usize, usize),
    AssertL(usize, [u8; 32]),
    AssertR([u8; 32], usize),
    Pair(usize, usize),
    Disconnect(usize, Option<usize>),
    /// index into `Dag::witness` (None = unpopulated)
    Witness(Option<usize>),
    Fail([u8; 64]),
    /// 2^(2^n) constant: (n, bits MSB first packed)
    Word(u8, Vec<u8>),
    Jet(JetRef),
}

impl Op {
    pub fn children(&self) -> (Option<usize>, Option<usize>) {
        match self {
            Op::InjL(c) | Op::InjR(c) | Op::Take(c) | Op::Drop(c) | Op::AssertL(c, _) | Op::AssertR(_, c) => (Some(*c), None),
            Op::Comp(a, b) | Op::Case(a, b) | Op::Pair(a, b) => (Some(*a), Some(*b)),
            Op::Disconnect(a, b) => (Some(*a), *b),
            _ => (None, None),
        }
    }
    pub fn name(&self) -> &'static str {
        match self {
            Op::Iden => "iden",
            Op::Unit => "unit",
            Op::InjL(_) => "injl",
            Op::InjR(_) => "injr",
            Op::Take(_) => "take",
            Op::Drop(_) => "drop",
            Op::Comp(..) => "comp",
            Op::Case(..) => "case",
            Op::AssertL(..) => "assertl",
            Op::AssertR(..) => "assertr",
            Op::Pair(..) => "pair",
            Op::Disconnect(..) => "disconnect",
            Op::Witness(_) => "witness",
            Op::Fail(_) => "fail",
            Op::Word(..) => "word",
            Op::Jet(_) => "jet",
        }
    }
}

/// A program DAG: children indices are smaller than the node's own index; the root is the last node.
#[derive(Clone, Debug, Default)]
pub struct Dag {
    pub nodes: Vec<Op>,
    /// witness values (abstract value + its type), referenced by `Op::Witness(Some(i))`
    pub witness: Vec<(V, T)>,
}

impl Dag {
    pub fn push(&mut self, op: Op) -> usize {
        self.nodes.push(op);
        self.nodes.len() - 1
    }
    pub fn root(&self) -> usize {
        self.nodes.len() - 1
    }
    pub fn len(&self) -> usize {
        self.nodes.len()
    }
    /// Restrict to the nodes reachable from `root`, renumbered in the original relative order.
    pub fn reachable_from(&self, root: usize) -> Dag {
        let mut keep = vec![false; self.nodes.len()];
        keep[root] = true;
        for i in (0..=root).rev() {
            if keep[i] {
                let (a, b) = self.nodes[i].children();
                for c in [a, b].into_iter().flatten() {
                    keep[c] = true;
                }
            }
        }
        let mut map = vec![usize::MAX; self.nodes.len()];
        let mut out = Dag { nodes: Vec::new(), witness: self.witness.clone() };
        for i in 0..=root {
            if keep[i] {
                map[i] = out.nodes.len();
                out.nodes.push(remap(&self.nodes[i], &map));
            }
        }
        out
    }
    pub fn render(&self) -> String {
        let mut s = String::new();
        for (i, op) in self.nodes.iter().enumerate() {
            use std::fmt::Write;
            let _ = match op {
                Op::Iden | Op::Unit => write!(s, "{}:{} ", i, op.name()),
                Op::InjL(c) | Op::InjR(c) | Op::Take(c) | Op::Drop(c) => write!(s, "{}:{}({}) ", i, op.name(), c),
                Op::Comp(a, b) | Op::Case(a, b) | Op::Pair(a, b) => write!(s, "{}:{}({},{}) ", i, op.name(), a, b),
                Op::AssertL(c, h) => write!(s, "{}:assertl({},#{}) ", i, c, &bits::fmt_bytes(h)[..8]),
                Op::AssertR(h, c) => write!(s, "{}:assertr(#{},{}) ", i, &bits::fmt_bytes(h)[..8], c),
                Op::Disconnect(a, Some(b)) => write!(s, "{}:disconnect({},{}) ", i, a, b),
                Op::Disconnect(a, None) => write!(s, "{}:disconnect({},?) ", i, a),
                Op::Witness(Some(w)) => write!(s, "{}:witness[{}:{}] ", i, val::show(&self.witness[*w].0), self.witness[*w].1),
                Op::Witness(None) => write!(s, "{}:witness[] ", i),
                Op::Fail(e) => write!(s, "{}:fail({}) ", i, &bits::fmt_bytes(e)[..8]),
                Op::Word(n, b) => write!(s, "{}:word{}({}) ", i, 1u64 << n, bits::fmt_bytes(b)),
                Op::Jet(j) => write!(s, "{}:jet_{} ", i, j.name()),
            };
        }
        s
    }
}

pub fn remap(op: &Op, map: &[usize]) -> Op {
    match op {
        Op::InjL(c) => Op::InjL(map[*c]),
        Op::InjR(c) => Op::InjR(map[*c]),
        Op::Take(c) => Op::Take(map[*c]),
        Op::Drop(c) => Op::Drop(map[*c]),
        Op::Comp(a, b) => Op::Comp(map[*a], map[*b]),
        Op::Case(a, b) => Op::Case(map[*a], map[*b]),
        Op::Pair(a, b) => Op::Pair(map[*a], map[*b]),
        Op::AssertL(c, h) => Op::AssertL(map[*c], *h),
        Op::AssertR(h, c) => Op::AssertR(*h, map[*c]),
        Op::Disconnect(a, b) => Op::Disconnect(map[*a], b.map(|b| map[b])),
        other => other.clone(),
    }
}

// ------------------------------------------------------------------------------------------
// M-infer
// ------------------------------------------------------------------------------------------

#[derive(Clone, Copy, Debug, PartialEq, Eq)]
enum Term {
    Free,
    Unit,
    Sum(u32, u32),
    Prod(u32, u32),
}

#[derive(Clone, Debug, PartialEq, Eq)]
pub enum Unsat {
    /// constructor clash while processing node `at`
    Clash { at: usize },
    /// infinite type; detected at the end
    Occurs,
}

pub struct Infer {
    parent: Vec<u32>,
    term: Vec<Term>,
    from_ty: HashMap<*const ty::Ty, u32>,
    /// keeps every type used as a memo key alive (addresses must not be recycled)
    keep: Vec<T>,
    pub arrows: Vec<(u32, u32)>,
}

impl Infer {
    pub fn new() -> Self {
        Infer { parent: Vec::new(), term: Vec::new(), from_ty: HashMap::new(), keep: Vec::new(), arrows: Vec::new() }
    }
    fn mk(&mut self, t: Term) -> u32 {
        let id = self.parent.len() as u32;
        self.parent.push(id);
        self.term.push(t);
        id
    }
    pub fn fresh(&mut self) -> u32 {
        self.mk(Term::Free)
    }
    fn find(&mut self, mut x: u32) -> u32 {
        // iterative, with full path compression
        let mut root = x;
        while self.parent[root as usize] != root {
            root = self.parent[root as usize];
        }
        while self.parent[x as usize] != root {
            let next = self.parent[x as usize];
            self.parent[x as usize] = root;
            x = next;
        }
        root
    }
    fn of_ty(&mut self, t: &T) -> u32 {
        let key = Arc::as_ptr(t);
        if let Some(v) = self.from_ty.get(&key) {
            return *v;
        }
        let v = match &t.kind {
            Kind::Unit => self.mk(Term::Unit),
            Kind::Sum(a, b) => {
                let x = self.of_ty(a);
                let y = self.of_ty(b);
                self.mk(Term::Sum(x, y))
            }
            Kind::Prod(a, b) => {
                let x = self.of_ty(a);
                let y = self.of_ty(b);
                self.mk(Term::Prod(x, y))
            }
        };
        self.from_ty.insert(key, v);
        self.keep.push(t.clone());
        v
    }
    /// First-order unification with an explicit work list. No occurs check here.
    fn unify(&mut self, a: u32, b: u32) -> Result<(), ()> {
        let mut work = vec![(a, b)];
        while let Some((a, b)) = work.pop() {
            let ra = self.find(a);
            let rb = self.find(b);
            if ra == rb {
                continue;
            }
            match (self.term[ra as usize], self.term[rb as usize]) {
                (Term::Free, _) => self.parent[ra as usize] = rb,
                (_, Term::Free) => self.parent[rb as usize] = ra,
                (Term::Unit, Term::Unit) => self.parent[ra as usize] = rb,
                (Term::Sum(a1, a2), Term::Sum(b1, b2)) | (Term::Prod(a1, a2), Term::Prod(b1, b2)) => {
                    self.parent[ra as usize] = rb;
                    work.push((a1, b1));
                    work.push((a2, b2));
                }
                _ => return Err(()),
            }
        }
        Ok(())
    }

    /// Add the typing constraints of node `i` (its children must already have arrows).
    fn constrain(&mut self, dag: &Dag, i: usize) -> Result<(), ()> {
        let arrow = match &dag.nodes[i] {
            Op::Iden => {
                let a = self.fresh();
                (a, a)
            }
            Op::Unit => (self.fresh(), self.mk(Term::Unit)),
            Op::InjL(c) => {
                let (s, t) = self.arrows[*c];
                let f = self.fresh();
                (s, self.mk(Term::Sum(t, f)))
            }
            Op::InjR(c) => {
                let (s, t) = self.arrows[*c];
                let f = self.fresh();
                (s, self.mk(Term::Sum(f, t)))
            }
            Op::Take(c) => {
                let (s, t) = self.arrows[*c];
                let f = self.fresh();
                (self.mk(Term::Prod(s, f)), t)
            }
            Op::Drop(c) => {
                let (s, t) = self.arrows[*c];
                let f = self.fresh();
                (self.mk(Term::Prod(f, s)), t)
            }
            Op::Comp(l, r) => {
                let (ls, lt) = self.arrows[*l];
                let (rs, rt) = self.arrows[*r];
                self.unify(lt, rs)?;
                (ls, rt)
            }
            Op::Case(l, r) => {
                let (ls, lt) = self.arrows[*l];
                let (rs, rt) = self.arrows[*r];
                let a = self.fresh();
                let b = self.fresh();
                let c = self.fresh();
                let ac = self.mk(Term::Prod(a, c));
                let bc = self.mk(Term::Prod(b, c));
                self.unify(ls, ac)?;
                self.unify(rs, bc)?;
                self.unify(lt, rt)?;
                let ab = self.mk(Term::Sum(a, b));
                (self.mk(Term::Prod(ab, c)), lt)
            }
            Op::AssertL(l, _) => {
                let (ls, lt) = self.arrows[*l];
                let a = self.fresh();
                let b = self.fresh();
                let c = self.fresh();
                let ac = self.mk(Term::Prod(a, c));
                self.unify(ls, ac)?;
                let ab = self.mk(Term::Sum(a, b));
                (self.mk(Term::Prod(ab, c)), lt)
            }
            Op::AssertR(_, r) => {
                let (rs, rt) = self.arrows[*r];
                let a = self.fresh();
                let b = self.fresh();
                let c = self.fresh();
                let bc = self.mk(Term::Prod(b, c));
                self.unify(rs, bc)?;
                let ab = self.mk(Term::Sum(a, b));
                (self.mk(Term::Prod(ab, c)), rt)
            }
            Op::Pair(l, r) => {
                let (ls, lt) = self.arrows[*l];
                let (rs, rt) = self.arrows[*r];
                self.unify(ls, rs)?;
                (ls, self.mk(Term::Prod(lt, rt)))
            }
            Op::Disconnect(l, r) => {
                let (ls, lt) = self.arrows[*l];
                let a = self.fresh();
                let b = self.fresh();
                let (c, d) = match r {
                    Some(r) => self.arrows[*r],
                    None => (self.fresh(), self.fresh()),
                };
                let w256 = self.of_ty(&ty::word(8));
                let wa = self.mk(Term::Prod(w256, a));
                self.unify(ls, wa)?;
                let bc = self.mk(Term::Prod(b, c));
                self.unify(lt, bc)?;
                (a, self.mk(Term::Prod(b, d)))
            }
            Op::Witness(_) | Op::Fail(_) => (self.fresh(), self.fresh()),
            Op::Word(n, _) => (self.mk(Term::Unit), self.of_ty(&ty::word(*n as usize))),
            Op::Jet(j) => {
                let s = j.source();
                let t = j.target();
                (self.of_ty(&s), self.of_ty(&t))
            }
        };
        self.arrows.push(arrow);
        Ok(())
    }

    /// Is the solved constraint graph cyclic anywhere below the given roots?
    fn cyclic(&mut self, roots: &[u32]) -> bool {
        // iterative DFS with colours: 0 white, 1 grey, 2 black
        let mut colour: HashMap<u32, u8> = HashMap::new();
        for r in roots {
            let r = self.find(*r);
            if colour.get(&r).copied().unwrap_or(0) == 2 {
                continue;
            }
            let mut stack: Vec<(u32, u8)> = vec![(r, 0)];
            while let Some((n, phase)) = stack.pop() {
                if phase == 0 {
                    match colour.get(&n).copied().unwrap_or(0) {
                        1 => return true,
                        2 => continue,
                        _ => {}
                    }
                    colour.insert(n, 1);
                    stack.push((n, 1));
                    if let Term::Sum(a, b) | Term::Prod(a, b) = self.term[n as usize] {
                        let ra = self.find(a);
                        let rb = self.find(b);
                        for c in [ra, rb] {
                            match colour.get(&c).copied().unwrap_or(0) {
                                1 => return true,
                                2 => {}
                                _ => stack.push((c, 0)),
                            }
                        }
                    }
                } else {
                    colour.insert(n, 2);
                }
            }
        }
        false
    }

    fn extract(&mut self, v: u32, memo: &mut HashMap<u32, T>) -> T {
        // iterative post-order over the (acyclic) solved graph
        let root = self.find(v);
        let mut stack = vec![(root, false)];
        while let Some((n, done)) = stack.pop() {
            if memo.contains_key(&n) {
                continue;
            }
            match self.term[n as usize] {
                Term::Free | Term::Unit => {
                    memo.insert(n, ty::unit());
                }
                Term::Sum(a, b) | Term::Prod(a, b) => {
                    let ra = self.find(a);
                    let rb = self.find(b);
                    if done {
                        let ta = memo[&ra].clone();
                        let tb = memo[&rb].clone();
                        let t = if matches!(self.term[n as usize], Term::Sum(..)) { ty::sum(ta, tb) } else { ty::prod(ta, tb) };
                        memo.insert(n, t);
                    } else {
                        stack.push((n, true));
                        stack.push((ra, false));
                        stack.push((rb, false));
                    }
                }
            }
        }
        memo[&root].clone()
    }
}

/// Result of reference inference: per node (source, target) with free variables set to unit.
pub type Typing = Vec<(T, T)>;

/// Run M-infer on the whole DAG. `program`: force the root to 1 -> 1. `pin`: additionally unify the
/// root arrow with the given complete types.
pub fn infer(dag: &Dag, program: bool, pin: Option<(&T, &T)>) -> Result<Typing, Unsat> {
    let r = infer_masked(dag, program, pin, None)?;
    Ok(r.into_iter().map(|x| x.expect("all visible")).collect())
}

/// As `infer`, but the occurs check and the extraction only look at the arrows of `visible` nodes
/// (the nodes a finalisation walk actually visits; every node's constraints still take part).
pub fn infer_masked(dag: &Dag, program: bool, pin: Option<(&T, &T)>, visible: Option<&[bool]>) -> Result<Vec<Option<(T, T)>>, Unsat> {
    infer_masked2(dag, program, pin, visible, visible)
}

/// `occurs_visible`: the nodes whose arrows the occurs check starts from (everything a finalisation walk over the
/// construction-time DAG visits, attached disconnect branches included); `visible`: the nodes whose arrows are extracted.
pub fn infer_masked2(dag: &Dag, program: bool, pin: Option<(&T, &T)>, occurs_visible: Option<&[bool]>, visible: Option<&[bool]>) -> Result<Vec<Option<(T, T)>>, Unsat> {
    let mut inf = Infer::new();
    for i in 0..dag.nodes.len() {
        inf.constrain(dag, i).map_err(|_| Unsat::Clash { at: i })?;
    }
    let (rs, rt) = inf.arrows[dag.root()];
    if program {
        let u = inf.mk(Term::Unit);
        inf.unify(rs, u).map_err(|_| Unsat::Clash { at: dag.root() })?;
        inf.unify(rt, u).map_err(|_| Unsat::Clash { at: dag.root() })?;
    }
    if let Some((ps, pt)) = pin {
        let a = inf.of_ty(ps);
        let b = inf.of_ty(pt);
        inf.unify(rs, a).map_err(|_| Unsat::Clash { at: dag.root() })?;
        inf.unify(rt, b).map_err(|_| Unsat::Clash { at: dag.root() })?;
    }
    let vis = |i: usize| visible.map(|v| v[i]).unwrap_or(true);
    let ovis = |i: usize| occurs_visible.map(|v| v[i]).unwrap_or(true);
    let roots: Vec<u32> = inf.arrows.iter().enumerate().filter(|(i, _)| ovis(*i)).flat_map(|(_, (s, t))| [*s, *t]).collect();
    if inf.cyclic(&roots) {
        return Err(Unsat::Occurs);
    }
    let mut memo = HashMap::new();
    let arrows = inf.arrows.clone();
    Ok(arrows
        .iter()
        .enumerate()
        .map(|(i, (s, t))| if vis(i) { Some((inf.extract(*s, &mut memo), inf.extract(*t, &mut memo))) } else { None })
        .collect())
}

/// As `local_rule_ok`, but clauses that mention a child the walk did not visit are skipped.
pub fn local_rule_ok_masked(dag: &Dag, i: usize, arrows: &[(T, T)], visible: &[bool]) -> Result<(), String> {
    if let Op::Disconnect(l, Some(r)) = &dag.nodes[i] {
        if !visible[*r] {
            let mut d2 = dag.clone();
            d2.nodes[i] = Op::Disconnect(*l, None);
            return local_rule_ok(&d2, i, arrows);
        }
    }
    local_rule_ok(dag, i, arrows)
}

/// Check the local typing rule of node `i` on given arrows (used on the *library's* arrows).
pub fn local_rule_ok(dag: &Dag, i: usize, arrows: &[(T, T)]) -> Result<(), String> {
    let (s, t) = &arrows[i];
    let req = |c: bool, m: &str| if c { Ok(()) } else { Err(format!("node {} ({}): {}", i, dag.nodes[i].name(), m)) };
    match &dag.nodes[i] {
        Op::Iden => req(s == t, "source != target"),
        Op::Unit => req(t.is_unit(), "target is not 1"),
        Op::InjL(c) => {
            let (cs, ct) = &arrows[*c];
            req(cs == s, "source differs from child's")?;
            req(t.as_sum().map(|(a, _)| a == ct).unwrap_or(false), "target is not child.target + _")
        }
        Op::InjR(c) => {
            let (cs, ct) = &arrows[*c];
            req(cs == s, "source differs from child's")?;
            req(t.as_sum().map(|(_, b)| b == ct).unwrap_or(false), "target is not _ + child.target")
        }
        Op::Take(c) => {
            let (cs, ct) = &arrows[*c];
            req(ct == t, "target differs from child's")?;
            req(s.as_prod().map(|(a, _)| a == cs).unwrap_or(false), "source is not child.source * _")
        }
        Op::Drop(c) => {
            let (cs, ct) = &arrows[*c];
            req(ct == t, "target differs from child's")?;
            req(s.as_prod().map(|(_, b)| b == cs).unwrap_or(false), "source is not _ * child.source")
        }
        Op::Comp(l, r) => {
            req(arrows[*l].0 == *s && arrows[*r].1 == *t, "outer types")?;
            req(arrows[*l].1 == arrows[*r].0, "left target != right source")
        }
        Op::Pair(l, r) => {
            req(arrows[*l].0 == *s && arrows[*r].0 == *s, "sources differ")?;
            req(t.as_prod().map(|(a, b)| *a == arrows[*l].1 && *b == arrows[*r].1).unwrap_or(false), "target is not the product of the children's targets")
        }
        Op::Case(l, r) => {
            let (ab, c) = s.as_prod().ok_or_else(|| format!("node {}: case source not a product", i))?;
            let (a, b) = ab.as_sum().ok_or_else(|| format!("node {}: case source not (A+B)*C", i))?;
            req(arrows[*l].0.as_prod().map(|(x, y)| x == a && y == c).unwrap_or(false), "left source != A*C")?;
            req(arrows[*r].0.as_prod().map(|(x, y)| x == b && y == c).unwrap_or(false), "right source != B*C")?;
            req(arrows[*l].1 == *t && arrows[*r].1 == *t, "branch targets")
        }
        Op::AssertL(l, _) => {
            let (ab, c) = s.as_prod().ok_or_else(|| format!("node {}: assertl source not a product", i))?;
            let (a, _) = ab.as_sum().ok_or_else(|| format!("node {}: assertl source not (A+B)*C", i))?;
            req(arrows[*l].0.as_prod().map(|(x, y)| x == a && y == c).unwrap_or(false), "left source != A*C")?;
            req(arrows[*l].1 == *t, "target")
        }
        Op::AssertR(_, r) => {
            let (ab, c) = s.as_prod().ok_or_else(|| format!("node {}: assertr source not a product", i))?;
            let (_, b) = ab.as_sum().ok_or_else(|| format!("node {}: assertr source not (A+B)*C", i))?;
            req(arrows[*r].0.as_prod().map(|(x, y)| x == b && y == c).unwrap_or(false), "right source != B*C")?;
            req(arrows[*r].1 == *t, "target")
        }
        Op::Disconnect(l, r) => {
            let (ls, lt) = &arrows[*l];
            req(ls.as_prod().map(|(w, a)| **w == *ty::word(8) && a == s).unwrap_or(false), "left source != 2^256 * A")?;
            let (b, c) = lt.as_prod().ok_or_else(|| format!("node {}: disconnect left target not a product", i))?;
            let (tb, td) = t.as_prod().ok_or_else(|| format!("node {}: disconnect target not a product", i))?;
            req(tb == b, "target.0 != B")?;
            if let Some(r) = r {
                req(arrows[*r].0 == *c && arrows[*r].1 == *td, "right arrow != C -> D")?;
            }
            Ok(())
        }
        Op::Witness(_) | Op::Fail(_) => Ok(()),
        Op::Word(n, _) => req(s.is_unit() && **t == *ty::word(*n as usize), "word arrow"),
        Op::Jet(j) => req(**s == *j.source() && **t == *j.target(), "jet arrow"),
    }
}

// ------------------------------------------------------------------------------------------
// M-cmr / TMR
// ------------------------------------------------------------------------------------------

pub struct Ivs {
    map: HashMap<&'static str, [u32; 8]>,
}

impl Ivs {
    pub fn new() -> Self {
        let mut map = HashMap::new();
        for name in ["unit", "iden", "injl", "injr", "take", "drop", "comp", "case", "pair", "disconnect", "witness", "fail"] {
            let tag = format!("Simplicity\x1fCommitment\x1f{}", name);
            map.insert(name, sha::tag_iv(tag.as_bytes()));
        }
        map.insert("identity", sha::tag_iv(b"Simplicity\x1fIdentity"));
        map.insert("jet", sha::tag_iv(b"Simplicity\x1fJet"));
        map.insert("ty-unit", sha::tag_iv(b"Simplicity\x1fType\x1funit"));
        map.insert("ty-sum", sha::tag_iv(b"Simplicity\x1fType\x1fsum"));
        map.insert("ty-prod", sha::tag_iv(b"Simplicity\x1fType\x1fprod"));
        Ivs { map }
    }
    pub fn iv(&self, name: &str) -> &[u32; 8] {
        &self.map[name]
    }
}

thread_local! {
    pub static IVS: Ivs = Ivs::new();
}

/// Type Merkle root from scratch.
pub fn tmr(t: &T, memo: &mut HashMap<*const ty::Ty, [u8; 32]>) -> [u8; 32] {
    let key = Arc::as_ptr(t);
    if let Some(h) = memo.get(&key) {
        return *h;
    }
    let h = IVS.with(|ivs| match &t.kind {
        Kind::Unit => sha::state_bytes(ivs.iv("ty-unit")),
        Kind::Sum(a, b) => {
            let x = tmr(a, memo);
            let y = tmr(b, memo);
            sha::state_bytes(&sha::absorb(ivs.iv("ty-sum"), &x, &y))
        }
        Kind::Prod(a, b) => {
            let x = tmr(a, memo);
            let y = tmr(b, memo);
            sha::state_bytes(&sha::absorb(ivs.iv("ty-prod"), &x, &y))
        }
    });
    memo.insert(key, h);
    h
}

pub fn tmr_of(t: &T) -> [u8; 32] {
    tmr(t, &mut HashMap::new())
}

const ZERO32: [u8; 32] = [0u8; 32];

pub fn word_cmr(n: u8, packed: &[u8]) -> [u8; 32] {
    IVS.with(|ivs| {
        let bitsv = bits::bits_of_bytes(packed);
        let len = 1usize << n;
        let bit_cmr = |b: bool| {
            let unit = sha::state_bytes(ivs.iv("unit"));
            sha::state_bytes(&sha::absorb(ivs.iv(if b { "injr" } else { "injl" }), &ZERO32, &unit))
        };
        // balanced pair tree
        let mut layer: Vec<[u8; 32]> = bitsv[..len].iter().map(|b| bit_cmr(*b)).collect();
        while layer.len() > 1 {
            layer = layer.chunks(2).map(|p| sha::state_bytes(&sha::absorb(ivs.iv("pair"), &p[0], &p[1]))).collect();
        }
        let scribe = layer[0];
        let pass1 = sha::absorb(ivs.iv("identity"), &ZERO32, &scribe);
        let t_unit = tmr_of(&ty::unit());
        let t_word = tmr_of(&ty::word(n as usize));
        let pass2 = sha::absorb(&pass1, &t_unit, &t_word);
        let mut weight = [0u8; 32];
        weight[24..].copy_from_slice(&(len as u64).to_be_bytes());
        sha::state_bytes(&sha::absorb(ivs.iv("jet"), &weight, &sha::state_bytes(&pass2)))
    })
}

/// Commitment roots of every node, hashed from scratch.
pub fn cmrs(dag: &Dag) -> Vec<[u8; 32]> {
    IVS.with(|ivs| {
        let mut out: Vec<[u8; 32]> = Vec::with_capacity(dag.nodes.len());
        for op in &dag.nodes {
            let h = match op {
                Op::Iden => sha::state_bytes(ivs.iv("iden")),
                Op::Unit => sha::state_bytes(ivs.iv("unit")),
                Op::Witness(_) => sha::state_bytes(ivs.iv("witness")),
                Op::InjL(c) => sha::state_bytes(&sha::absorb(ivs.iv("injl"), &ZERO32, &out[*c])),
                Op::InjR(c) => sha::state_bytes(&sha::absorb(ivs.iv("injr"), &ZERO32, &out[*c])),
                Op::Take(c) => sha::state_bytes(&sha::absorb(ivs.iv("take"), &ZERO32, &out[*c])),
                Op::Drop(c) => sha::state_bytes(&sha::absorb(ivs.iv("drop"), &ZERO32, &out[*c])),
                Op::Comp(a, b) => sha::state_bytes(&sha::absorb(ivs.iv("comp"), &out[*a], &out[*b])),
                Op::Case(a, b) => sha::state_bytes(&sha::absorb(ivs.iv("case"), &out[*a], &out[*b])),
                Op::Pair(a, b) => sha::state_bytes(&sha::absorb(ivs.iv("pair"), &out[*a], &out[*b])),
                Op::AssertL(a, h) => sha::state_bytes(&sha::absorb(ivs.iv("case"), &out[*a], h)),
                Op::AssertR(h, b) => sha::state_bytes(&sha::absorb(ivs.iv("case"), h, &out[*b])),
                Op::Disconnect(a, _) => sha::state_bytes(&sha::absorb(ivs.iv("disconnect"), &ZERO32, &out[*a])),
                Op::Fail(e) => {
                    let mut l = [0u8; 32];
                    let mut r = [0u8; 32];
                    l.copy_from_slice(&e[..32]);
                    r.copy_from_slice(&e[32..]);
                    sha::state_bytes(&sha::absorb(ivs.iv("fail"), &l, &r))
                }
                Op::Word(n, b) => word_cmr(*n, b),
                Op::Jet(j) => j.cmr(),
            };
            out.push(h);
        }
        out
    })
}

// ------------------------------------------------------------------------------------------
// Instantiation into the library
// ------------------------------------------------------------------------------------------

pub type CNode<'b> = Arc<ConstructNode<'b>>;

pub fn lib_word(n: u8, packed: &[u8]) -> Word {
    let mut it = simplicity::BitIter::from(packed);
    Word::from_bits(&mut it, u32::from(n)).expect("harness: word bits")
}

/// Library values for the witness table.
pub fn lib_witnesses(dag: &Dag) -> Vec<Value> {
    let mut tf = ty::ToFinal::new();
    dag.witness.iter().map(|(v, t)| val::build_ctor(v, t, &mut tf)).collect()
}

pub struct Instance<'b> {
    pub nodes: Vec<Option<CNode<'b>>>,
}

#[derive(Debug)]
pub struct InstErr {
    pub at: usize,
    pub err: types::Error,
}

/// Build every node exactly once in the given topological order.
/// `witness_values[i]`: the library value to attach to witness slot i (None = leave unpopulated).
pub fn instantiate<'b>(
    dag: &Dag,
    ctx: &Context<'b>,
    order: &[usize],
    witness_values: &[Option<Value>],
) -> Result<Instance<'b>, InstErr> {
    let mut nodes: Vec<Option<CNode<'b>>> = vec![None; dag.nodes.len()];
    for &i in order {
        let get = |k: &usize| nodes[*k].as_ref().expect("harness: order is not topological");
        let e = |err| InstErr { at: i, err };
        let n: CNode<'b> = match &dag.nodes[i] {
            Op::Iden => CNode::iden(ctx),
            Op::Unit => CNode::unit(ctx),
            Op::InjL(c) => CNode::injl(get(c)),
            Op::InjR(c) => CNode::injr(get(c)),
            Op::Take(c) => CNode::take(get(c)),
            Op::Drop(c) => CNode::drop_(get(c)),
            Op::Comp(a, b) => CNode::comp(get(a), get(b)).map_err(e)?,
            Op::Case(a, b) => CNode::case(get(a), get(b)).map_err(e)?,
            Op::Pair(a, b) => CNode::pair(get(a), get(b)).map_err(e)?,
            Op::AssertL(a, h) => CNode::assertl(get(a), Cmr::from_byte_array(*h)).map_err(e)?,
            Op::AssertR(h, b) => CNode::assertr(Cmr::from_byte_array(*h), get(b)).map_err(e)?,
            Op::Disconnect(a, b) => {
                let right = b.as_ref().map(|b| get(b).clone());
                CNode::disconnect(get(a), &right).map_err(e)?
            }
            Op::Witness(w) => {
                let v = w.and_then(|w| witness_values.get(w).cloned().flatten());
                CNode::witness(ctx, v)
            }
            Op::Fail(en) => CNode::fail(ctx, FailEntropy::from_byte_array(*en)),
            Op::Word(n, b) => CNode::const_word(ctx, lib_word(*n, b)),
            Op::Jet(j) => CNode::jet(ctx, j.as_dyn()),
        };
        nodes[i] = Some(n);
    }
    Ok(Instance { nodes })
}

pub fn natural_order(dag: &Dag) -> Vec<usize> {
    (0..dag.nodes.len()).collect()
}

/// A random topological order (children before parents) of all nodes.
pub fn random_topo_order(dag: &Dag, rng: &mut Rng) -> Vec<usize> {
    let n = dag.nodes.len();
    let mut indeg = vec![0usize; n]; // number of unbuilt children
    let mut parents: Vec<Vec<usize>> = vec![Vec::new(); n];
    for (i, op) in dag.nodes.iter().enumerate() {
        let (a, b) = op.children();
        for c in [a, b].into_iter().flatten() {
            indeg[i] += 1;
            parents[c].push(i);
        }
    }
    let mut ready: Vec<usize> = (0..n).filter(|i| indeg[*i] == 0).collect();
    let mut order = Vec::with_capacity(n);
    while !ready.is_empty() {
        let k = rng.usize_below(ready.len());
        let i = ready.swap_remove(k);
        order.push(i);
        for &p in &parents[i] {
            indeg[p] -= 1;
            if indeg[p] == 0 {
                ready.push(p);
            }
        }
    }
    assert_eq!(order.len(), n, "harness: DAG has a cycle?");
    order
}

/// Pin the root arrow of a construct node to complete types.
pub fn pin_root<'b>(ctx: &Context<'b>, root: &CNode<'b>, s: &T, t: &T) -> Result<(), types::Error> {
    let fs = ty::to_final(s);
    let ft = ty::to_final(t);
    ctx.unify(&root.arrow().source, &types::Type::complete(ctx, fs), "harness: pin source")?;
    ctx.unify(&root.arrow().target, &types::Type::complete(ctx, ft), "harness: pin target")
}
