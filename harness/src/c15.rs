//! C15 — the Elements environment shown to jets is the supplied transaction.
//! Oracle: a reference extractor over the harness's plain transaction model (`txgen::TxSpec`).

use crate::ast::{Dag, JetRef, Op};
use crate::bits;
use crate::gen::{self, Family};
use crate::prog::{self, Root};
use crate::rng::{hash_str, Rng};
use crate::runner::{guard, violated, Case, Ctx, Outcome, Plan};
use crate::sha;
use crate::txgen::{self, Conf, TxSpec};
use crate::ty::{self, T};
use crate::val::{self, V};
use simplicity::bit_machine::ExecutionError;
use simplicity::jet::Elements;
use simplicity::Value;

fn word(bytes: &[u8]) -> V {
    let n = (bytes.len() * 8).trailing_zeros() as usize;
    val::decode_compact(&bits::bits_of_bytes(bytes), &ty::word(n)).expect("word").0
}
fn bit(b: bool) -> V {
    if b {
        V::R(Box::new(V::Unit))
    } else {
        V::L(Box::new(V::Unit))
    }
}
fn none() -> V {
    V::L(Box::new(V::Unit))
}
fn some(v: V) -> V {
    V::R(Box::new(v))
}
fn pair(a: V, b: V) -> V {
    V::P(Box::new(a), Box::new(b))
}
fn hash(b: &[u8]) -> V {
    word(&sha::sha256(b))
}

/// Conf 2^256 (asset / nonce): confidential -> L((parity, x)), explicit -> R(bytes)
fn conf256(c: &Conf) -> Option<V> {
    match c {
        Conf::Null => None,
        Conf::Explicit(b) => Some(V::R(Box::new(word(&b[..32])))),
        Conf::Confidential(c) => Some(V::L(Box::new(pair(bit(c[0] & 1 == 1), word(&c[1..]))))),
    }
}

/// Conf 2^64 (amount): null amounts are explicit zero
fn conf_amount(c: &Conf) -> V {
    match c {
        Conf::Null => V::R(Box::new(word(&0u64.to_be_bytes()))),
        Conf::Explicit(b) => V::R(Box::new(word(&b[..8]))),
        Conf::Confidential(c) => V::L(Box::new(pair(bit(c[0] & 1 == 1), word(&c[1..])))),
    }
}

fn is_conf(c: &Conf) -> bool {
    matches!(c, Conf::Confidential(_))
}

#[derive(Clone, Debug)]
pub enum Expect {
    Value(V),
    JetFails,
    /// no reference for this jet (covered by the two-build consistency check only)
    Unknown,
}

/// The reference: what jet `name` must return on `input` (a u32 index, a u8 index, or nothing).
pub fn expected(name: &str, spec: &TxSpec, idx: u32) -> Expect {
    use Expect::*;
    let i = idx as usize;
    let inp = spec.ins.get(i);
    let out = spec.outs.get(i);
    let cur = &spec.ins[spec.ix as usize];
    let is_final = spec.ins.iter().all(|x| x.sequence == 0xffff_ffff);
    let lock_height = if !is_final && spec.locktime < 500_000_000 { spec.locktime } else { 0 };
    let lock_time = if !is_final && spec.locktime >= 500_000_000 { spec.locktime } else { 0 };
    let opt = |v: Option<V>| match v {
        Some(v) => some(v),
        None => none(),
    };
    let iss_kind = |x: &txgen::InSpec| x.issuance.as_ref().map(|s| s.blinding_nonce != [0u8; 32]);
    let input_field = |x: &txgen::InSpec, what: &str| -> V {
        match what {
            "prev_outpoint" => pair(word(&x.prev_txid), word(&x.vout.to_be_bytes())),
            "sequence" => word(&x.sequence.to_be_bytes()),
            "asset" => conf256(&x.utxo_asset).expect("utxo asset is never null"),
            "amount" => pair(conf256(&x.utxo_asset).expect("utxo asset"), conf_amount(&x.utxo_value)),
            "script_hash" => hash(&x.utxo_script),
            "script_sig_hash" => hash(&x.script_sig),
            "pegin" => opt(x.pegin.map(|g| word(&g))),
            "annex_hash" => opt(x.annex().map(hash)),
            "issuance" => opt(iss_kind(x).map(bit)),
            "reissuance_blinding" => opt(x.issuance.as_ref().filter(|s| s.blinding_nonce != [0u8; 32]).map(|s| word(&s.blinding_nonce))),
            "new_issuance_contract" => opt(x.issuance.as_ref().filter(|s| s.blinding_nonce == [0u8; 32]).map(|s| word(&s.entropy))),
            "reissuance_entropy" => opt(x.issuance.as_ref().filter(|s| s.blinding_nonce != [0u8; 32]).map(|s| word(&s.entropy))),
            "issuance_asset_amount" => opt(x.issuance.as_ref().map(|s| conf_amount(&s.amount))),
            "issuance_token_amount" => opt(x.issuance.as_ref().map(|s| if s.blinding_nonce == [0u8; 32] { conf_amount(&s.keys) } else { conf_amount(&Conf::Null) })),
            "issuance_asset_proof" => hash(match &x.issuance {
                Some(s) if is_conf(&s.amount) => &s.amount_rangeproof,
                _ => &[],
            }),
            "issuance_token_proof" => hash(match &x.issuance {
                Some(s) if s.blinding_nonce == [0u8; 32] && is_conf(&s.keys) => &s.keys_rangeproof,
                _ => &[],
            }),
            _ => unreachable!(),
        }
    };
    match name {
        "version" => Value(word(&spec.version.to_be_bytes())),
        "lock_time" => Value(word(&spec.locktime.to_be_bytes())),
        "num_inputs" => Value(word(&(spec.ins.len() as u32).to_be_bytes())),
        "num_outputs" => Value(word(&(spec.outs.len() as u32).to_be_bytes())),
        "current_index" => Value(word(&spec.ix.to_be_bytes())),
        "genesis_block_hash" => Value(word(&spec.genesis)),
        "script_cmr" => Value(word(&spec.script_cmr)),
        "internal_key" => Value(word(&spec.control_block[1..33])),
        "tapleaf_version" => Value(word(&[spec.control_block[0] & 0xfe])),
        "tappath" => {
            let m = (spec.control_block.len() - 33) / 32;
            Value(if i < m { some(word(&spec.control_block[33 + 32 * i..65 + 32 * i])) } else { none() })
        }
        "tx_is_final" => Value(bit(is_final)),
        "tx_lock_height" => Value(word(&lock_height.to_be_bytes())),
        "tx_lock_time" => Value(word(&lock_time.to_be_bytes())),
        "check_lock_height" => {
            if idx <= lock_height {
                Value(V::Unit)
            } else {
                JetFails
            }
        }
        "check_lock_time" => {
            if idx <= lock_time {
                Value(V::Unit)
            } else {
                JetFails
            }
        }
        n if n.starts_with("input_") || ["issuance", "reissuance_blinding", "new_issuance_contract", "reissuance_entropy", "issuance_asset_amount", "issuance_token_amount", "issuance_asset_proof", "issuance_token_proof"].contains(&n) => {
            let field = n.strip_prefix("input_").unwrap_or(n);
            if !["prev_outpoint", "sequence", "asset", "amount", "script_hash", "script_sig_hash", "pegin", "annex_hash", "issuance", "reissuance_blinding", "new_issuance_contract", "reissuance_entropy", "issuance_asset_amount", "issuance_token_amount", "issuance_asset_proof", "issuance_token_proof"].contains(&field) {
                return Unknown;
            }
            Value(match inp {
                Some(x) => some(input_field(x, field)),
                None => none(),
            })
        }
        n if n.starts_with("current_") => {
            let field = match n.strip_prefix("current_").unwrap() {
                "issuance_asset_amount" => "issuance_asset_amount",
                "issuance_token_amount" => "issuance_token_amount",
                "issuance_asset_proof" => "issuance_asset_proof",
                "issuance_token_proof" => "issuance_token_proof",
                f @ ("prev_outpoint" | "sequence" | "asset" | "amount" | "script_hash" | "script_sig_hash" | "pegin" | "annex_hash" | "reissuance_blinding" | "new_issuance_contract" | "reissuance_entropy") => f,
                _ => return Unknown,
            };
            Value(input_field(cur, field))
        }
        "output_asset" => Value(opt(out.map(|o| conf256(&o.asset).expect("output asset is never null here")))),
        "output_amount" => Value(opt(out.map(|o| pair(conf256(&o.asset).expect("asset"), conf_amount(&o.value))))),
        "output_nonce" => Value(opt(out.map(|o| opt(conf256(&o.nonce))))),
        "output_script_hash" => Value(opt(out.map(|o| hash(&o.script)))),
        // proofs are only meaningful (and only hashed) for confidential assets / amounts; otherwise the hash of the empty string
        "output_surjection_proof" => Value(opt(out.map(|o| hash(if is_conf(&o.asset) { &o.surjection_proof } else { &[] })))),
        "output_range_proof" => Value(opt(out.map(|o| hash(if is_conf(&o.value) { &o.range_proof } else { &[] })))),
        "output_is_fee" => Value(opt(out.map(|o| bit(o.script.is_empty() && matches!(o.asset, Conf::Explicit(_)) && matches!(o.value, Conf::Explicit(_)))))),
        _ => Unknown,
    }
}

fn run_jet(j: Elements, input: Option<&Value>, env: &txgen::Env) -> Result<Result<Value, ExecutionError>, String> {
    let dag = Dag { nodes: vec![Op::Jet(JetRef::Elements(j))], witness: vec![] };
    let redeem = prog::build_redeem(&dag, &[0], &[], None, Root::Free)?;
    let (res, st) = prog::run_machine(&redeem, input, env)?;
    if st.frame_oob != 0 {
        return Err(format!("{} frame accesses outside the frame", st.frame_oob));
    }
    Ok(res)
}

fn index_candidates(spec: &TxSpec, src: &T) -> Vec<u32> {
    if src.width == 32 {
        let n = spec.ins.len() as u32;
        let m = spec.outs.len() as u32;
        let mut v = vec![0, 1, n.saturating_sub(1), n, n + 1, m.saturating_sub(1), m, m + 1, u32::MAX, spec.locktime, spec.locktime.wrapping_add(1), spec.locktime.wrapping_sub(1)];
        v.sort();
        v.dedup();
        v
    } else if src.width == 8 {
        let m = ((spec.control_block.len() - 33) / 32) as u32;
        let mut v = vec![0, 1, m.saturating_sub(1), m, (m + 1).min(255), 255];
        v.sort();
        v.dedup();
        v
    } else {
        vec![0]
    }
}

fn one_env(rng: &mut Rng, case: &mut Case) -> Outcome {
    let spec = {
        let mut s = txgen::gen_tx(rng, 5, 5);
        // output assets are never null in this check (the C structure has no defined reading for them)
        for o in s.outs.iter_mut() {
            if o.asset == Conf::Null {
                o.asset = Conf::Explicit(rng.bytes(32));
            }
            if o.value == Conf::Null {
                o.value = Conf::Explicit(rng.next_u64().to_be_bytes().to_vec());
            }
        }
        s
    };
    case.desc = txgen::describe(&spec);
    case.hash = Some(hash_str(&format!("{:?}", spec)));
    let env = match guard(|| txgen::build_env(&spec)) {
        Ok(e) => e,
        Err(p) => return violated("panic:env-build", format!("{} ; {}", p, case.desc)),
    };
    // a second, independent build of the same data (other addresses)
    let env2 = match guard(|| txgen::build_env(&spec.clone())) {
        Ok(e) => e,
        Err(p) => return violated("panic:env-build", p),
    };
    let jets = gen::jets_of(Family::Elements);
    for ji in &jets {
        let name = ji.jet.name();
        let ej = match ji.jet {
            JetRef::Elements(e) => e,
            _ => continue,
        };
        // only environment-reading jets with no input or an index input
        if !(ji.src.width == 0 || ji.src.as_word() == Some(5) || ji.src.as_word() == Some(3)) {
            continue;
        }
        if name.starts_with("broken_do_not_use") {
            continue;
        }
        for idx in index_candidates(&spec, &ji.src) {
            let input_v = if ji.src.width == 32 {
                Some(word(&idx.to_be_bytes()))
            } else if ji.src.width == 8 {
                Some(word(&[idx as u8]))
            } else {
                None
            };
            let lin = match &input_v {
                Some(v) => Some(val::realise(0, v, &ji.src, rng).expect("input")),
                None => None,
            };
            let r1 = match guard(|| run_jet(ej, lin.as_ref(), &env)) {
                Ok(Ok(r)) => r,
                Ok(Err(e)) => return violated(format!("jet-run:{}", name), e),
                Err(p) => return violated(format!("panic:jet:{}", name), format!("{} ; {}", p, case.desc)),
            };
            let r2 = match guard(|| run_jet(ej, lin.as_ref(), &env2)) {
                Ok(Ok(r)) => r,
                Ok(Err(e)) => return violated(format!("jet-run:{}", name), e),
                Err(p) => return violated(format!("panic:jet:{}", name), p),
            };
            // (a) two builds of equal data agree on every jet, aggregate digests included
            let same = match (&r1, &r2) {
                (Ok(a), Ok(b)) => val::sem_eq(a, b),
                (Err(_), Err(_)) => true,
                _ => false,
            };
            if !same {
                return violated(format!("env-build-dependent:{}", name), format!("jet {}({}) differs between two environments built from equal data ; {}", name, idx, case.desc));
            }
            case.count("jet-runs");
            // (b) the reference extractor
            match expected(&name, &spec, idx) {
                Expect::Unknown => case.count("no-reference"),
                Expect::JetFails => {
                    if !matches!(r1, Err(ExecutionError::JetFailed(_))) {
                        return violated(format!("env-field:{}", name), format!("jet {}({}) must fail for this transaction but returned {:?} ; {}", name, idx, r1.as_ref().map(|v| v.to_string()).map_err(|e| e.to_string()), case.desc));
                    }
                    case.count("reference-checked");
                }
                Expect::Value(want) => match &r1 {
                    Ok(got) => {
                        if let Err(e) = val::denotes(got, &want, &ji.tgt) {
                            return violated(
                                format!("env-field:{}", name),
                                format!("jet {}({}) returns {} ; the supplied transaction says {} ; {} ; {}", name, idx, got, crate::runner::truncate(&val::show(&want), 400), e, case.desc),
                            );
                        }
                        case.count("reference-checked");
                        case.count(&format!("ref.{}", name));
                    }
                    Err(e) => return violated(format!("env-field:{}", name), format!("jet {}({}) fails with {} ; expected {} ; {}", name, idx, e, crate::runner::truncate(&val::show(&want), 300), case.desc)),
                },
            }
            // (c) the signature hash exposed by the environment is the one the jet returns
            if name == "sig_all_hash" {
                if let Ok(v) = &r1 {
                    let bytes = bits::bytes_of_bits(&v.iter_compact().collect::<Vec<bool>>());
                    let want: [u8; 32] = *env.c_tx_env().sighash_all().as_ref();
                    if bytes != want {
                        return violated("sighash-all", format!("sig_all_hash jet returns {} ; CTxEnv::sighash_all() gives {} ; {}", bits::fmt_bytes(&bytes), bits::fmt_bytes(&want), case.desc));
                    }
                    case.count("sighash-compared");
                }
            }
        }
    }
    drop(env);
    drop(env2);
    Outcome::Held
}

pub fn run(ctx: &Ctx) {
    let t = ctx.tier;
    ctx.run_sub("environments", Plan::sample(ctx.param_u64("envs", t.pick(1_500, 80_000)), 0.9), one_env);
}
