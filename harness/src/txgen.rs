//! G-tx: random Elements transactions and environments, kept as a plain data model (`TxSpec`) that the
//! reference extractor of C15 reads, and converted to `elements` types only to call the library.

use crate::rng::Rng;
use simplicity::elements::confidential::{Asset, Nonce, Value as CValue};
use simplicity::elements::hashes::Hash as _;
use simplicity::elements::secp256k1_zkp::{Generator, PedersenCommitment, PublicKey, Secp256k1, SecretKey};
use simplicity::elements::taproot::ControlBlock;
use simplicity::elements::{self, AssetId, AssetIssuance, BlockHash, LockTime, OutPoint, RangeProof, Script, Sequence, SurjectionProof, Transaction, TxIn, TxInWitness, TxOut, TxOutWitness, Txid};
use simplicity::jet::elements::{ElementsEnv, ElementsUtxo};
use simplicity::Cmr;
use std::sync::Arc;

#[derive(Clone, Debug, PartialEq, Eq)]
pub enum Conf {
    Null,
    /// explicit asset id (32 bytes) / value (u64) / nonce (32 bytes)
    Explicit(Vec<u8>),
    /// 33-byte commitment
    Confidential([u8; 33]),
}

#[derive(Clone, Debug)]
pub struct IssuanceSpec {
    pub blinding_nonce: [u8; 32],
    pub entropy: [u8; 32],
    pub amount: Conf,
    pub keys: Conf,
    pub amount_rangeproof: Vec<u8>,
    pub keys_rangeproof: Vec<u8>,
}

#[derive(Clone, Debug)]
pub struct InSpec {
    pub prev_txid: [u8; 32],
    pub vout: u32,
    pub sequence: u32,
    /// genesis hash of the parent chain if this input is a pegin
    pub pegin: Option<[u8; 32]>,
    pub script_sig: Vec<u8>,
    pub issuance: Option<IssuanceSpec>,
    pub witness_stack: Vec<Vec<u8>>,
    pub utxo_script: Vec<u8>,
    pub utxo_asset: Conf,
    pub utxo_value: Conf,
}

impl InSpec {
    /// The annex: the last witness item if it starts with 0x50 (the tag byte itself excluded).
    pub fn annex(&self) -> Option<&[u8]> {
        let last = self.witness_stack.last()?;
        if last.first() == Some(&0x50) {
            Some(&last[1..])
        } else {
            None
        }
    }
}

#[derive(Clone, Debug)]
pub struct OutSpec {
    pub asset: Conf,
    pub value: Conf,
    pub nonce: Conf,
    pub script: Vec<u8>,
    pub surjection_proof: Vec<u8>,
    pub range_proof: Vec<u8>,
}

#[derive(Clone, Debug)]
pub struct TxSpec {
    pub version: u32,
    pub locktime: u32,
    pub ins: Vec<InSpec>,
    pub outs: Vec<OutSpec>,
    pub ix: u32,
    pub genesis: [u8; 32],
    pub script_cmr: [u8; 32],
    /// serialized control block: leaf-version|parity, internal key (32), path (32 * m)
    pub control_block: Vec<u8>,
}

thread_local! {
    static SECP: Secp256k1<elements::secp256k1_zkp::All> = Secp256k1::new();
}

/// x coordinate of a valid curve point (derived from a random secret key).
pub fn curve_x(rng: &mut Rng) -> [u8; 32] {
    loop {
        let mut sk = [0u8; 32];
        rng.fill(&mut sk);
        if let Ok(sk) = SecretKey::from_slice(&sk) {
            let pk = SECP.with(|s| PublicKey::from_secret_key(s, &sk));
            let ser = pk.serialize();
            let mut x = [0u8; 32];
            x.copy_from_slice(&ser[1..]);
            return x;
        }
    }
}

fn commitment(rng: &mut Rng, prefixes: [u8; 2]) -> [u8; 33] {
    // retry until the library's parser accepts the point with this prefix
    loop {
        let x = curve_x(rng);
        let mut c = [0u8; 33];
        c[0] = prefixes[rng.usize_below(2)];
        c[1..].copy_from_slice(&x);
        let ok = match prefixes[0] {
            0x0a => Generator::from_slice(&c).is_ok(),
            0x08 => PedersenCommitment::from_slice(&c).is_ok(),
            _ => PublicKey::from_slice(&c).is_ok(),
        };
        if ok {
            return c;
        }
    }
}

fn gen_asset(rng: &mut Rng, allow_null: bool) -> Conf {
    match rng.below(if allow_null { 5 } else { 4 }) {
        0 | 1 => Conf::Explicit(rng.bytes(32)),
        2 | 3 => Conf::Confidential(commitment(rng, [0x0a, 0x0b])),
        _ => Conf::Null,
    }
}

fn gen_value(rng: &mut Rng, allow_null: bool) -> Conf {
    match rng.below(if allow_null { 5 } else { 4 }) {
        0 | 1 => {
            let v = match rng.below(4) {
                0 => 0u64,
                1 => u64::MAX,
                2 => rng.range(1, 21_000_000 * 100_000_000),
                _ => rng.next_u64(),
            };
            Conf::Explicit(v.to_be_bytes().to_vec())
        }
        2 | 3 => Conf::Confidential(commitment(rng, [0x08, 0x09])),
        _ => Conf::Null,
    }
}

fn gen_nonce(rng: &mut Rng) -> Conf {
    match rng.below(4) {
        0 => Conf::Explicit(rng.bytes(32)),
        1 => Conf::Confidential(commitment(rng, [0x02, 0x03])),
        _ => Conf::Null,
    }
}

/// Bytes that `RangeProof::from_slice` accepts: empty, or >= 65 bytes with a header that parses.
fn gen_rangeproof(rng: &mut Rng) -> Vec<u8> {
    if rng.chance(1, 3) {
        return vec![];
    }
    let len = rng.urange(65, 300);
    let mut b = rng.bytes(len);
    b[0] = 0x00; // no range, no minimum: header parses for any tail
    b
}

/// Bytes that `SurjectionProof::from_slice` accepts.
fn gen_surjectionproof(rng: &mut Rng) -> Vec<u8> {
    if rng.chance(1, 3) {
        return vec![];
    }
    let n_inputs = rng.urange(1, 12);
    let mut bitmap = vec![0u8; n_inputs.div_ceil(8)];
    let mut used = 0;
    for i in 0..n_inputs {
        if (used < 3 && rng.bool()) || (i == n_inputs - 1 && used == 0) {
            bitmap[i / 8] |= 1 << (i % 8);
            used += 1;
        }
    }
    let mut b = vec![(n_inputs & 0xff) as u8, (n_inputs >> 8) as u8];
    b.extend(bitmap);
    b.extend(rng.bytes(32 * (1 + used)));
    b
}

fn gen_script(rng: &mut Rng) -> Vec<u8> {
    match rng.below(6) {
        0 => vec![],
        1 => {
            // OP_RETURN null data with a few pushes
            let mut s = vec![0x6a];
            for _ in 0..rng.urange(0, 3) {
                match rng.below(4) {
                    0 => s.push(0x51 + rng.below(16) as u8), // OP_1..OP_16
                    1 => s.push(0x4f),                       // OP_1NEGATE
                    _ => {
                        let n = rng.urange(0, 40);
                        s.push(n as u8);
                        s.extend(rng.bytes(n));
                    }
                }
            }
            s
        }
        2 => {
            let mut s = vec![0x51, 0x20];
            s.extend(rng.bytes(32));
            s
        }
        _ => {
            let n = rng.urange(1, 60);
            rng.bytes(n)
        }
    }
}

pub fn gen_tx(rng: &mut Rng, max_in: usize, max_out: usize) -> TxSpec {
    let n_in = rng.urange(1, max_in.max(1));
    let n_out = rng.urange(0, max_out);
    let mut ins = Vec::new();
    for _ in 0..n_in {
        let issuance = if rng.chance(1, 3) {
            let reissue = rng.bool();
            let mut bn = [0u8; 32];
            if reissue {
                // a valid tweak (scalar): random bytes below the group order with overwhelming probability
                rng.fill(&mut bn);
                bn[0] &= 0x7f;
            }
            let mut en = [0u8; 32];
            rng.fill(&mut en);
            let (amount, keys) = loop {
                let a = gen_value(rng, true);
                let k = if reissue { Conf::Null } else { gen_value(rng, true) };
                if a != Conf::Null || k != Conf::Null {
                    break (a, k);
                }
            };
            Some(IssuanceSpec { blinding_nonce: bn, entropy: en, amount, keys, amount_rangeproof: gen_rangeproof(rng), keys_rangeproof: gen_rangeproof(rng) })
        } else {
            None
        };
        let mut stack: Vec<Vec<u8>> = (0..rng.urange(0, 4))
            .map(|_| {
                let n = rng.urange(0, 40);
                let mut b = rng.bytes(n);
                if !b.is_empty() && b[0] == 0x50 {
                    b[0] = 0x51;
                }
                b
            })
            .collect();
        match rng.below(5) {
            0 => {
                let n = rng.urange(0, 80);
                let mut a = vec![0x50];
                a.extend(rng.bytes(n));
                stack.push(a);
            }
            1 => stack.push(vec![0x50]),
            _ => {}
        }
        let mut txid = [0u8; 32];
        rng.fill(&mut txid);
        let mut gen = [0u8; 32];
        rng.fill(&mut gen);
        ins.push(InSpec {
            prev_txid: txid,
            vout: match rng.below(3) {
                0 => 0,
                1 => u32::MAX,
                _ => rng.next_u32(),
            },
            sequence: match rng.below(5) {
                0 => 0xffff_ffff,
                1 => 0xffff_fffe,
                2 => rng.below(0x10000) as u32,
                3 => (1 << 22) | rng.below(0x10000) as u32,
                _ => rng.next_u32(),
            },
            pegin: if rng.chance(1, 5) { Some(gen) } else { None },
            script_sig: {
                let n = rng.urange(0, 100);
                rng.bytes(n)
            },
            issuance,
            witness_stack: stack,
            utxo_script: gen_script(rng),
            utxo_asset: gen_asset(rng, false),
            utxo_value: gen_value(rng, false),
        });
    }
    let outs = (0..n_out)
        .map(|_| OutSpec {
            asset: gen_asset(rng, true),
            value: gen_value(rng, true),
            nonce: gen_nonce(rng),
            script: gen_script(rng),
            surjection_proof: gen_surjectionproof(rng),
            range_proof: gen_rangeproof(rng),
        })
        .collect();
    let mut genesis = [0u8; 32];
    rng.fill(&mut genesis);
    let mut cmr = [0u8; 32];
    rng.fill(&mut cmr);
    let path_len = if rng.chance(1, 20) { rng.urange(9, 128) } else { rng.urange(0, 8) };
    let mut cb = vec![0xbe | (rng.below(2) as u8)];
    cb.extend(curve_x(rng));
    cb.extend(rng.bytes(32 * path_len));
    TxSpec {
        version: match rng.below(3) {
            0 => 2,
            1 => 1,
            _ => rng.next_u32(),
        },
        locktime: match rng.below(5) {
            0 => 0,
            1 => rng.below(500_000_000) as u32,
            2 => 500_000_000 + rng.below(1_000_000_000) as u32,
            3 => 499_999_999 + rng.below(3) as u32,
            _ => rng.next_u32(),
        },
        ix: rng.below(n_in as u64) as u32,
        ins,
        outs,
        genesis,
        script_cmr: cmr,
        control_block: cb,
    }
}

fn to_asset(c: &Conf) -> Asset {
    match c {
        Conf::Null => Asset::Null,
        Conf::Explicit(b) => Asset::Explicit(AssetId::from_byte_array(b[..32].try_into().unwrap())),
        Conf::Confidential(c) => Asset::from_commitment(c).expect("asset commitment"),
    }
}

fn to_value(c: &Conf) -> CValue {
    match c {
        Conf::Null => CValue::Null,
        Conf::Explicit(b) => CValue::Explicit(u64::from_be_bytes(b[..8].try_into().unwrap())),
        Conf::Confidential(c) => CValue::from_commitment(c).expect("value commitment"),
    }
}

fn to_nonce(c: &Conf) -> Nonce {
    match c {
        Conf::Null => Nonce::Null,
        Conf::Explicit(b) => Nonce::Explicit(b[..32].try_into().unwrap()),
        Conf::Confidential(c) => Nonce::from_commitment(c).expect("nonce commitment"),
    }
}

pub fn to_transaction(spec: &TxSpec) -> (Transaction, Vec<ElementsUtxo>) {
    let mut input = Vec::new();
    let mut utxos = Vec::new();
    for i in &spec.ins {
        let (issuance, arp, krp) = match &i.issuance {
            Some(s) => (
                AssetIssuance {
                    asset_blinding_nonce: elements::AssetBlindingNonce::from_byte_array(s.blinding_nonce),
                    asset_entropy: elements::AssetEntropy::from_byte_array(s.entropy),
                    amount: to_value(&s.amount),
                    inflation_keys: to_value(&s.keys),
                },
                RangeProof::from_slice(&s.amount_rangeproof).expect("rangeproof"),
                RangeProof::from_slice(&s.keys_rangeproof).expect("rangeproof"),
            ),
            None => (AssetIssuance::null(), RangeProof::from_slice(&[]).unwrap(), RangeProof::from_slice(&[]).unwrap()),
        };
        let pegin_witness = match &i.pegin {
            Some(g) => elements::PeginWitness::new(elements::PeginData {
                value: 1000,
                asset_id: AssetId::from_byte_array([7u8; 32]),
                genesis_hash: { use elements::bitcoin::hashes::Hash as _; elements::bitcoin::BlockHash::from_byte_array(*g) },
                claim_script: elements::bitcoin::ScriptBuf::from(vec![0x51]),
                transaction: vec![1, 2, 3],
                merkle_proof: vec![4, 5, 6],
                referenced_block: { use elements::bitcoin::hashes::Hash as _; elements::bitcoin::BlockHash::from_byte_array([9u8; 32]) },
            }),
            None => Default::default(),
        };
        input.push(TxIn {
            previous_output: OutPoint { txid: Txid::from_byte_array(i.prev_txid), vout: i.vout },
            is_pegin: i.pegin.is_some(),
            script_sig: Script::from(i.script_sig.clone()),
            sequence: Sequence(i.sequence),
            asset_issuance: issuance,
            witness: TxInWitness { amount_rangeproof: arp, inflation_keys_rangeproof: krp, script_witness: i.witness_stack.clone().into(), pegin_witness },
        });
        utxos.push(ElementsUtxo { script_pubkey: Script::from(i.utxo_script.clone()), asset: to_asset(&i.utxo_asset), value: to_value(&i.utxo_value) });
    }
    let output = spec
        .outs
        .iter()
        .map(|o| TxOut {
            asset: to_asset(&o.asset),
            value: to_value(&o.value),
            nonce: to_nonce(&o.nonce),
            script_pubkey: Script::from(o.script.clone()),
            witness: TxOutWitness { surjection_proof: SurjectionProof::from_slice(&o.surjection_proof).expect("surjection proof"), rangeproof: RangeProof::from_slice(&o.range_proof).expect("rangeproof") },
        })
        .collect();
    (Transaction { version: spec.version, lock_time: LockTime::from_consensus(spec.locktime), input, output }, utxos)
}

pub type Env = ElementsEnv<Arc<Transaction>>;

pub fn build_env(spec: &TxSpec) -> Env {
    let (tx, utxos) = to_transaction(spec);
    let cb = ControlBlock::from_slice(&spec.control_block).expect("control block");
    let annex = spec.ins[spec.ix as usize].annex().map(|a| a.to_vec());
    ElementsEnv::new(Arc::new(tx), utxos, spec.ix, Cmr::from_byte_array(spec.script_cmr), cb, annex, BlockHash::from_byte_array(spec.genesis))
}

pub fn describe(spec: &TxSpec) -> String {
    format!(
        "tx v{} locktime {} ix {} ; {} inputs [{}] ; {} outputs [{}] ; control block {} bytes",
        spec.version,
        spec.locktime,
        spec.ix,
        spec.ins.len(),
        spec.ins
            .iter()
            .map(|i| format!(
                "seq {:#x}{}{}{} stack {:?}",
                i.sequence,
                if i.pegin.is_some() { " pegin" } else { "" },
                match &i.issuance {
                    Some(s) if s.blinding_nonce == [0; 32] => " issuance",
                    Some(_) => " reissuance",
                    None => "",
                },
                if i.annex().is_some() { " annex" } else { "" },
                i.witness_stack.iter().map(|w| w.len()).collect::<Vec<_>>()
            ))
            .collect::<Vec<_>>()
            .join(" | "),
        spec.outs.len(),
        spec.outs
            .iter()
            .map(|o| format!("{}/{}/{} script {}B", conf_kind(&o.asset), conf_kind(&o.value), conf_kind(&o.nonce), o.script.len()))
            .collect::<Vec<_>>()
            .join(" | "),
        spec.control_block.len()
    )
}

fn conf_kind(c: &Conf) -> &'static str {
    match c {
        Conf::Null => "null",
        Conf::Explicit(_) => "expl",
        Conf::Confidential(_) => "conf",
    }
}
