//! C19 — budget padding is sufficient and minimal. Oracle: compact-size arithmetic re-implemented
//! from the consensus serialisation rules.

use crate::rng::Rng;
use crate::runner::{violated, Case, Ctx, Outcome, Plan};
use simplicity::bitcoin::Weight;
use simplicity::Cost;

fn cs_len(n: u64) -> u64 {
    if n <= 252 {
        1
    } else if n <= 0xffff {
        3
    } else if n <= 0xffff_ffff {
        5
    } else {
        9
    }
}

/// Consensus-serialised length of a witness stack given only its item lengths.
fn stack_len(items: &[usize]) -> u64 {
    cs_len(items.len() as u64) + items.iter().map(|l| cs_len(*l as u64) + *l as u64).sum::<u64>()
}

fn budget_of(items: &[usize]) -> u64 {
    stack_len(items) + 50
}

fn weight_of(cost: u64) -> u64 {
    cost.div_ceil(1000)
}

const CONSENSUS_MAX: u64 = 4_000_050_000;

/// Shapes of stacks: (description, item lengths)
fn gen_stack(rng: &mut Rng, kind: u64) -> Vec<usize> {
    let straddle = [0usize, 1, 2, 251, 252, 253, 254, 255, 256, 65534, 65535, 65536, 65537];
    match kind {
        0 => vec![],
        1 => vec![*rng.pick(&straddle)],
        2 => {
            // item count on or next to a compact-size boundary, tiny items
            let n = *rng.pick(&[251usize, 252, 253, 254, 65534, 65535, 65536]);
            let n = if n > 1000 && rng.chance(3, 4) { *rng.pick(&[251usize, 252, 253, 254]) } else { n };
            (0..n).map(|_| rng.usize_below(2)).collect()
        }
        3 => {
            let n = rng.urange(1, 6);
            (0..n).map(|_| *rng.pick(&straddle)).collect()
        }
        4 => {
            // a typical simplicity spend: program, witness, control block
            vec![rng.urange(1, 4000), rng.urange(0, 600), 33 + 32 * rng.usize_below(10)]
        }
        _ => {
            let n = rng.urange(0, 12);
            (0..n).map(|_| rng.skewed(3000)).collect()
        }
    }
}

fn materialise(items: &[usize], rng: &mut Rng) -> Vec<Vec<u8>> {
    items
        .iter()
        .map(|l| {
            let mut v = vec![0u8; *l];
            if *l > 0 {
                v[0] = rng.next_u64() as u8;
            }
            v
        })
        .collect()
}

/// Check one (cost, stack). `count_on_boundary`: minimality is not claimed.
fn check_one(cost: u64, items: &[usize], stack: &mut Vec<Vec<u8>>, case: &Case) -> Result<(), (String, String)> {
    let c = Cost::from_milliweight(cost as u32);
    let budget = budget_of(items);
    let w = weight_of(cost);
    let want_valid = w <= budget;
    let got_valid = c.is_budget_valid(stack);
    let ctx = || format!("cost {} (weight {}), stack of {} items serialising to {} bytes (budget {})", cost, w, items.len(), budget - 50, budget);
    if got_valid != want_valid {
        return Err(("is-budget-valid".into(), format!("is_budget_valid = {} ; expected {} for {}", got_valid, want_valid, ctx())));
    }
    let pad = c.get_padding(stack);
    match (&pad, want_valid) {
        (None, true) => {
            case.count("valid-no-padding");
            Ok(())
        }
        (Some(a), true) => Err(("padding-when-valid".into(), format!("get_padding returned {} bytes although within budget: {}", a.len(), ctx()))),
        (None, false) => Err(("no-padding-when-invalid".into(), format!("get_padding returned None although over budget: {}", ctx()))),
        (Some(a), false) => {
            if a.is_empty() || a[0] != 0x50 || a[1..].iter().any(|b| *b != 0) {
                return Err(("padding-format".into(), format!("annex of {} bytes is not 0x50 followed by zeros: first bytes {:02x?} ; {}", a.len(), &a[..a.len().min(4)], ctx())));
            }
            // sufficiency, by the model and by the library's own predicate on the padded stack
            let mut items2 = items.to_vec();
            items2.push(a.len());
            let new_budget = budget_of(&items2);
            if w > new_budget {
                return Err(("padding-insufficient".into(), format!("annex of {} bytes gives budget {} < weight {} ; {}", a.len(), new_budget, w, ctx())));
            }
            stack.push(a.clone());
            let still_invalid = !c.is_budget_valid(stack);
            let still_pads = c.get_padding(stack).is_some();
            stack.pop();
            if still_invalid {
                return Err(("padding-insufficient-lib".into(), format!("is_budget_valid is still false after appending the returned annex of {} bytes ; {}", a.len(), ctx())));
            }
            if still_pads {
                return Err(("padding-not-fixpoint".into(), format!("get_padding still asks for padding after the annex of {} bytes was appended ; {}", a.len(), ctx())));
            }
            // minimality
            let count_on_boundary = items.len() == 252 || items.len() == 65535;
            if a.len() > 1 && !count_on_boundary {
                let mut items3 = items.to_vec();
                items3.push(a.len() - 1);
                if w <= budget_of(&items3) {
                    return Err(("padding-not-minimal".into(), format!("annex of {} bytes returned but {} bytes already suffice (budget {} >= weight {}) ; {}", a.len(), a.len() - 1, budget_of(&items3), w, ctx())));
                }
                case.count("minimality-checked");
            } else if count_on_boundary {
                case.count("minimality-skipped-count-boundary");
            }
            case.count("padded");
            Ok(())
        }
    }
}

fn deficits() -> Vec<i64> {
    let mut v: Vec<i64> = (-3..=300).collect();
    v.extend(65_500..=65_560);
    v
}

pub fn run(ctx: &Ctx) {
    let t = ctx.tier;
    // exhaustive over deficits near every region edge, for a family of stacks
    let ds = deficits();
    let n_stacks: u64 = t.pick(60, 600);
    ctx.run_sub("deficits-exhaustive", Plan::enumerate(n_stacks, 0.45), |rng, case| {
        let kind = case.idx % 6;
        let items = gen_stack(rng, kind);
        let mut stack = materialise(&items, rng);
        let budget = budget_of(&items) as i64;
        for d in &ds {
            for r in [-1i64, 0, 1, 999, -999, 500] {
                let cost = 1000 * (budget + d) + r;
                if cost < 0 || cost as u64 > CONSENSUS_MAX {
                    continue;
                }
                if let Err((sig, det)) = check_one(cost as u64, &items, &mut stack, case) {
                    case.desc = format!("cost {} items {:?}", cost, &items[..items.len().min(8)]);
                    return violated(sig, det);
                }
                case.count("evaluations");
            }
        }
        case.desc = format!("stack kind {} ({} items, {} bytes serialised): every deficit in [-3,300] u [65500,65560] x 6 remainders", kind, items.len(), budget - 50);
        case.hash = Some(crate::rng::hash_str(&format!("{:?}", items)));
        Outcome::Held
    });
    // random costs anywhere up to the consensus maximum (large annexes: fewer cases)
    ctx.run_sub("random-costs", Plan::sample(t.pick(3_000, 60_000), 0.3), |rng, case| {
        let kind = rng.below(6);
        let items = gen_stack(rng, kind);
        let mut stack = materialise(&items, rng);
        for _ in 0..8 {
            let cost = match rng.below(4) {
                0 => rng.range(0, CONSENSUS_MAX),
                1 => rng.range(0, 2_000_000),
                2 => CONSENSUS_MAX - rng.below(3000),
                _ => rng.range(0, 200_000_000),
            };
            if let Err((sig, det)) = check_one(cost, &items, &mut stack, case) {
                case.desc = format!("cost {} items {:?}", cost, &items[..items.len().min(8)]);
                return violated(sig, det);
            }
            case.count("evaluations");
        }
        case.desc = format!("8 random costs against stack {:?}", &items[..items.len().min(8)]);
        case.hash = Some(case.seed);
        Outcome::Held
    });
    // conversions
    ctx.run_sub("weight-conversions", Plan::sample(t.pick(20_000, 1_000_000), 0.15), |rng, case| {
        let mut prev: Option<(u64, Weight)> = None;
        let base = match rng.below(4) {
            0 => rng.range(0, 5000),
            1 => rng.range(CONSENSUS_MAX - 5000, CONSENSUS_MAX),
            2 => rng.range(u64::from(u32::MAX) - 5000, u64::from(u32::MAX) - 50),
            _ => rng.range(0, u64::from(u32::MAX) - 50),
        };
        for c in base..base + 40 {
            let w: Weight = Cost::from_milliweight(c as u32).into();
            if c <= CONSENSUS_MAX && w.to_wu() != c.div_ceil(1000) {
                return violated("cost-to-weight", format!("Weight::from(Cost({})) = {} wu ; round-up gives {}", c, w.to_wu(), c.div_ceil(1000)));
            }
            if let Some((pc, pw)) = prev {
                if pw > w {
                    return violated("cost-to-weight-monotone", format!("Weight(Cost({})) = {} > Weight(Cost({})) = {}", pc, pw.to_wu(), c, w.to_wu()));
                }
            }
            prev = Some((c, w));
            // weight -> cost -> weight is the identity below saturation
            let wu = c / 1000;
            let back: Weight = Cost::from(Weight::from_wu(wu)).into();
            if wu <= 4_294_967 && back.to_wu() != wu {
                return violated("weight-cost-weight", format!("Weight({}) -> Cost -> Weight = {}", wu, back.to_wu()));
            }
            let cc = Cost::from(Weight::from_wu(wu));
            let want = (wu.min(u64::from(u32::MAX)) * 1000).min(u64::from(u32::MAX)) as u32;
            if cc != Cost::from_milliweight(want) {
                return violated("weight-to-cost", format!("Cost::from(Weight({})) = {} ; expected {}", wu, cc, want));
            }
        }
        // huge weights saturate instead of wrapping
        let big = rng.range(u64::from(u32::MAX) / 1000, u64::MAX);
        let cb = Cost::from(Weight::from_wu(big));
        if big > 4_294_967 && cb != Cost::from_milliweight(u32::MAX) {
            return violated("weight-to-cost-saturation", format!("Cost::from(Weight({})) = {} ; expected saturation", big, cb));
        }
        case.hash = Some(base);
        case.desc = format!("costs {}..{} and weight {}", base, base + 40, big);
        Outcome::Held
    });
}
