//! Counting global allocator: live bytes, peak live bytes and the largest single request, so that the
//! totality checks can observe "allocates without bound relative to the input".

use std::alloc::{GlobalAlloc, Layout, System};
use std::sync::atomic::{AtomicBool, AtomicUsize, Ordering};

pub struct Counting;

static LIVE: AtomicUsize = AtomicUsize::new(0);
static PEAK: AtomicUsize = AtomicUsize::new(0);
static LARGEST: AtomicUsize = AtomicUsize::new(0);
static ENABLED: AtomicBool = AtomicBool::new(true);

unsafe impl GlobalAlloc for Counting {
    unsafe fn alloc(&self, l: Layout) -> *mut u8 {
        let p = System.alloc(l);
        if !p.is_null() && ENABLED.load(Ordering::Relaxed) {
            note_alloc(l.size());
        }
        p
    }
    unsafe fn dealloc(&self, p: *mut u8, l: Layout) {
        System.dealloc(p, l);
        if ENABLED.load(Ordering::Relaxed) {
            LIVE.fetch_sub(l.size().min(LIVE.load(Ordering::Relaxed)), Ordering::Relaxed);
        }
    }
    unsafe fn alloc_zeroed(&self, l: Layout) -> *mut u8 {
        let p = System.alloc_zeroed(l);
        if !p.is_null() && ENABLED.load(Ordering::Relaxed) {
            note_alloc(l.size());
        }
        p
    }
    unsafe fn realloc(&self, p: *mut u8, l: Layout, new: usize) -> *mut u8 {
        let q = System.realloc(p, l, new);
        if !q.is_null() && ENABLED.load(Ordering::Relaxed) {
            if new > l.size() {
                note_alloc(new - l.size());
                LARGEST.fetch_max(new, Ordering::Relaxed);
            } else {
                LIVE.fetch_sub((l.size() - new).min(LIVE.load(Ordering::Relaxed)), Ordering::Relaxed);
            }
        }
        q
    }
}

fn note_alloc(n: usize) {
    let live = LIVE.fetch_add(n, Ordering::Relaxed) + n;
    PEAK.fetch_max(live, Ordering::Relaxed);
    LARGEST.fetch_max(n, Ordering::Relaxed);
}

/// Start a measurement window: peak := live, largest := 0. Returns live bytes at the start.
pub fn window_start() -> usize {
    let live = LIVE.load(Ordering::Relaxed);
    PEAK.store(live, Ordering::Relaxed);
    LARGEST.store(0, Ordering::Relaxed);
    live
}

/// (peak live bytes above the window's start, largest single request) since `window_start`.
pub fn window_end(start_live: usize) -> (usize, usize) {
    (PEAK.load(Ordering::Relaxed).saturating_sub(start_live), LARGEST.load(Ordering::Relaxed))
}

pub fn set_enabled(on: bool) {
    ENABLED.store(on, Ordering::Relaxed);
}
