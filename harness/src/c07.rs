//! C07 — static resource bounds cover every execution; the machine refuses programs beyond its limits.
//! Monitors: the `verif-hooks` high-water marks and frame-bounds counter, panic capture, the
//! counting allocator, and a u128 re-computation of the bound formulas for the limit tests.

use crate::alloc;
use crate::ast::{self, Dag, Op};
use crate::c05;
use crate::gen::{self, Family, GenParams};
use crate::prog::{self, Root};
use crate::rng::{hash_str, Rng};
use crate::runner::{guard, violated, Case, Ctx, Outcome, Plan};
use crate::ty::{self, TyParams, T};
use crate::val;
use simplicity::jet::CoreEnv;
use simplicity::BitMachine;

const MAX_CELLS: u128 = 2 * 1024 * 1024 * 1024 - 1;
const MAX_FRAMES: u128 = 1024 * 1024;

/// Bound formulas re-computed in u128 (no overflow possible for the programs we build).
fn model_bounds(dag: &Dag, typing: &ast::Typing) -> (u128, u128) {
    let mut cells: Vec<u128> = Vec::with_capacity(dag.len());
    let mut frames: Vec<u128> = Vec::with_capacity(dag.len());
    for (i, op) in dag.nodes.iter().enumerate() {
        let w = |t: &T| t.width as u128;
        let (c, f) = match op {
            Op::Iden | Op::Unit | Op::Fail(_) | Op::Word(..) | Op::Jet(_) => (0, 0),
            Op::InjL(c) | Op::InjR(c) | Op::Take(c) | Op::Drop(c) | Op::AssertL(c, _) | Op::AssertR(_, c) => (cells[*c], frames[*c]),
            Op::Comp(l, r) => (w(&typing[*l].1) + cells[*l].max(cells[*r]), 1 + frames[*l].max(frames[*r])),
            Op::Case(l, r) | Op::Pair(l, r) => (cells[*l].max(cells[*r]), frames[*l].max(frames[*r])),
            Op::Disconnect(l, Some(r)) => (w(&typing[*l].0) + w(&typing[*l].1) + cells[*l].max(cells[*r]), 2 + frames[*l].max(frames[*r])),
            Op::Disconnect(l, None) => (w(&typing[*l].0) + w(&typing[*l].1) + cells[*l], 2 + frames[*l]),
            Op::Witness(_) => (w(&typing[i].1), 0),
        };
        cells.push(c);
        frames.push(f);
    }
    (cells[dag.root()], frames[dag.root()])
}

fn slack_bucket(slack: usize) -> &'static str {
    match slack {
        0 => "0",
        1..=8 => "1-8",
        9..=64 => "9-64",
        65..=1024 => "65-1024",
        _ => ">1024",
    }
}

fn exec_case(rng: &mut Rng, case: &mut Case, tp: &TyParams, fuel: usize, nest: bool) -> Outcome {
    let (a, b) = if rng.chance(1, 3) { (ty::unit(), ty::unit()) } else { (ty::gen_ty(rng, tp), ty::gen_ty(rng, tp)) };
    let p = GenParams { family: Family::Core, nest_bias: nest, fuel, mid: TyParams { max_width: if nest { 24 } else { 80 }, max_depth: 3, max_word_n: 5 }, ..GenParams::basic(fuel) };
    let base = gen::gen_program(rng, &p, &a, &b);
    let pr = match c05::prepare(base, &a, &b) {
        Ok(p) => p,
        Err(e) => return Outcome::Inconclusive(e),
    };
    case.desc = format!("{} -> {} : {}", a, b, crate::runner::truncate(&pr.dag.render(), 3000));
    case.hash = Some(hash_str(&case.desc));
    let wits = match prog::witness_values(&pr.dag, rng, false) {
        Ok(w) => w,
        Err(e) => return violated("witness-history-failed", e),
    };
    let order = ast::natural_order(&pr.dag);
    let redeem = match guard(|| prog::build_redeem(&pr.dag, &order, &wits, Some((&a, &b)), Root::Free)) {
        Ok(Ok(r)) => r,
        Ok(Err(e)) => return violated("well-typed-program-rejected", format!("{} ; {}", e, pr.dag.render())),
        Err(pn) => return violated("panic:build", format!("{} ; {}", pn, pr.dag.render())),
    };
    // the library's static bounds against the u128 re-computation
    let (mc, mf) = model_bounds(&pr.dag, &pr.typing);
    let lb = redeem.bounds();
    if lb.extra_cells as u128 != mc || lb.extra_frames as u128 != mf {
        // not by itself a violation of C07 (only domination is), but a changed formula is worth knowing: counted
        case.count("bounds-differ-from-formula");
    }
    let mut max_frames_used = 0usize;
    for k in 0..3 {
        let v = match k {
            0 => val::zero_val(&a),
            1 => val::ones_val(&a),
            _ => val::gen_val(rng, &a),
        };
        let lin = if a.width == 0 {
            None
        } else {
            match val::realise(0, &v, &a, rng) {
                Ok(x) => Some(x),
                Err(e) => return violated("input-history-failed", e),
            }
        };
        let (res, st) = match guard(|| prog::run_machine(&redeem, lin.as_ref(), &CoreEnv::new())) {
            Ok(Ok(x)) => x,
            Ok(Err(e)) => return violated("machine-refused", format!("{} ; bounds cells {} frames {} ; {}", e, lb.extra_cells, lb.extra_frames, pr.dag.render())),
            Err(pn) => return violated("panic:exec", format!("input {} : {} ; bounds cells {} frames {} ; program {}", val::show(&v), pn, lb.extra_cells, lb.extra_frames, pr.dag.render())),
        };
        case.count(if res.is_ok() { "run.ok" } else { "run.failed" });
        if st.frame_oob != 0 {
            return violated("frame-oob", format!("{} frame accesses outside their frame ; program {}", st.frame_oob, pr.dag.render()));
        }
        let cell_bound = st.io_width + st.extra_cells;
        if st.hw_cells > cell_bound {
            return violated("cells-exceed-bound", format!("run used {} cells; bound is |A|+|B|+extra = {}+{} ; input {} ; program {}", st.hw_cells, st.io_width, st.extra_cells, val::show(&v), pr.dag.render()));
        }
        if st.hw_frames > st.extra_frames + 2 {
            return violated("frames-exceed-bound", format!("run used {} frames; bound is extra+2 = {} ; program {}", st.hw_frames, st.extra_frames + 2, pr.dag.render()));
        }
        if st.hw_cells > st.data_bits {
            return violated("cells-exceed-buffer", format!("high-water {} cells in a buffer of {} bits", st.hw_cells, st.data_bits));
        }
        max_frames_used = max_frames_used.max(st.hw_frames);
        if res.is_ok() {
            case.count(&format!("slack.cells.{}", slack_bucket(cell_bound - st.hw_cells)));
            case.count(&format!("slack.frames.{}", slack_bucket(st.extra_frames + 2 - st.hw_frames)));
        }
    }
    case.max("max-frames-used", max_frames_used as u64);
    case.max("max-extra-cells", lb.extra_cells as u64);
    if pr.dag.len() >= 5 {
        Outcome::Held
    } else {
        Outcome::Trivial
    }
}

/// Programs built to have huge bounds. Returns (name, dag : 1 -> 1).
fn bomb(kind: u64, n: usize) -> (String, Dag) {
    let mut d = Dag::default();
    match kind {
        0 => {
            // pair tower of width 2^n fed through one comp: comp(tower, unit)
            let u = d.push(Op::Unit);
            let mut t = d.push(Op::InjL(u));
            for _ in 0..n {
                t = d.push(Op::Pair(t, t));
            }
            let u2 = d.push(Op::Unit);
            d.push(Op::Comp(t, u2));
            (format!("pair-tower-2^{}", n), d)
        }
        1 => {
            // two nested comps over a 2^n-wide value: comp(tower, comp(iden, unit))
            let u = d.push(Op::Unit);
            let mut t = d.push(Op::InjL(u));
            for _ in 0..n {
                t = d.push(Op::Pair(t, t));
            }
            let i = d.push(Op::Iden);
            let u2 = d.push(Op::Unit);
            let c = d.push(Op::Comp(i, u2));
            d.push(Op::Comp(t, c));
            (format!("pair-tower-2^{}-two-comps", n), d)
        }
        2 => {
            // three nested comps
            let u = d.push(Op::Unit);
            let mut t = d.push(Op::InjL(u));
            for _ in 0..n {
                t = d.push(Op::Pair(t, t));
            }
            let i = d.push(Op::Iden);
            let u2 = d.push(Op::Unit);
            let c = d.push(Op::Comp(i, u2));
            let i2 = d.push(Op::Iden);
            let c2 = d.push(Op::Comp(i2, c));
            d.push(Op::Comp(t, c2));
            (format!("pair-tower-2^{}-three-comps", n), d)
        }
        3 => {
            // witness of a 2^n-wide type, dropped
            let u = d.push(Op::Unit);
            let mut t = d.push(Op::InjL(u));
            for _ in 0..n {
                t = d.push(Op::Pair(t, t));
            }
            let i = d.push(Op::Iden);
            let p = d.push(Op::Pair(t, i)); // 1 -> W * 1
            let i2 = d.push(Op::Iden);
            let tk = d.push(Op::Take(i2)); // W*1 -> W
            let c = d.push(Op::Comp(p, tk)); // 1 -> W
            let u2 = d.push(Op::Unit);
            d.push(Op::Comp(c, u2));
            (format!("wide-pair-take-2^{}", n), d)
        }
        _ => {
            // left-nested comp chain: `n` frames
            let mut c = d.push(Op::Unit);
            for _ in 0..n {
                let u = d.push(Op::Unit);
                c = d.push(Op::Comp(c, u));
            }
            (format!("comp-chain-{}", n), d)
        }
    }
}

/// Programs with a wide source and target (W -> W, W = 2^(2^n) bits... i.e. a word of 2^n bits): the limits also
/// apply to |source| + |target| and to |source| + |target| + extra cells.
fn io_bomb_case(case: &mut Case) -> Outcome {
    // (number of nested comps, log2 of the width)
    let table: [(usize, usize); 13] = [(0, 20), (2, 20), (2, 29), (1, 30), (0, 30), (0, 31), (2, 30), (1, 31), (2, 31), (100, 40), (100, 61), (100, 64), (100, 70)];
    let (comps, n) = table[case.idx as usize % table.len()];
    let tower = comps >= 100;
    let name = if tower { format!("io-tower-2^{}-into-one-bit", n) } else { format!("io-{}-comps-word-2^{}", comps, n) };
    case.hint(&format!("bomb={}", name));
    case.desc = name.clone();
    case.hash = Some(hash_str(&name));
    let mut d = Dag::default();
    let (w_src, w_tgt, io): (ty::T, ty::T, u128);
    if tower {
        // 1 -> 2 : comp (pair^n (injl unit)) (injl unit): the extra cells are astronomically large (they saturate the
        // machine word beyond 2^64) and the target is one bit wide, so |source| + |target| + extra must not wrap around
        let u = d.push(Op::Unit);
        let mut t = d.push(Op::InjL(u));
        for _ in 0..n {
            t = d.push(Op::Pair(t, t));
        }
        let u2 = d.push(Op::Unit);
        let out = d.push(Op::InjL(u2));
        d.push(Op::Comp(t, out));
        w_src = ty::unit();
        w_tgt = ty::bit();
        io = 1;
    } else {
        let mut cur = d.push(Op::Iden);
        for _ in 0..comps {
            let i = d.push(Op::Iden);
            cur = d.push(Op::Comp(cur, i));
        }
        w_src = ty::word(n);
        w_tgt = ty::word(n);
        io = 2 * (1u128 << n);
    }
    let w = w_src.clone();
    let typing = match ast::infer(&d, false, Some((&w_src, &w_tgt))) {
        Ok(t) => t,
        Err(e) => return Outcome::Inconclusive(format!("harness: {} ill-typed {:?}", name, e)),
    };
    let (mc, mf) = model_bounds(&d, &typing);
    let must_refuse = (!tower && (1u128 << n) > MAX_CELLS) || mc > MAX_CELLS || io > MAX_CELLS || io + mc > MAX_CELLS || mf + 2 > MAX_FRAMES;
    let order = ast::natural_order(&d);
    let redeem = match guard(|| prog::build_redeem(&d, &order, &[], Some((&w, &w_tgt)), Root::Free)) {
        Ok(Ok(r)) => r,
        Ok(Err(e)) => return violated("well-typed-program-rejected", format!("{}: {}", name, e)),
        Err(pn) => return violated("panic:bounds-arithmetic", format!("building `{}` panicked: {}", name, pn)),
    };
    let start = alloc::window_start();
    let mac = guard(|| BitMachine::for_program(&redeem).map(|_| ()));
    let (peak, _) = alloc::window_end(start);
    match mac {
        Err(pn) => violated("panic:for_program", format!("{}: {}", name, pn)),
        Ok(Err(e)) => {
            if !must_refuse {
                return violated("within-limits-refused", format!("`{}` needs {} + {} cells (within limits) but for_program refused: {}", name, io, mc, e));
            }
            if peak > (1 << 20) {
                return violated("refusal-allocates", format!("`{}`: for_program refused but allocated {} bytes first", name, peak));
            }
            case.count("bomb.refused");
            case.count("io-bomb.refused");
            Outcome::Held
        }
        Ok(Ok(())) => {
            if must_refuse {
                return violated("beyond-limits-accepted", format!("`{}` needs |source|+|target| = {} and {} extra cells, beyond the hard limit {} for their sum, but for_program accepted it (and allocated {} bytes)", name, io, mc, MAX_CELLS, peak));
            }
            case.count("bomb.accepted");
            case.count("io-bomb.accepted");
            Outcome::Held
        }
    }
}

fn bomb_case(case: &mut Case) -> Outcome {
    let table: Vec<(u64, usize)> = vec![
        (0, 10), (0, 29), (0, 30), (0, 31), (0, 32), (0, 40), (0, 62), (0, 63), (0, 64), (0, 70),
        (1, 10), (1, 29), (1, 30), (1, 31), (1, 33), (1, 62), (1, 63), (1, 64), (1, 70),
        (2, 29), (2, 30), (2, 62), (2, 63), (2, 64),
        (3, 20), (3, 30), (3, 31), (3, 63), (3, 64),
        (4, 1000), (4, 1_048_574), (4, 1_048_576), (4, 1_048_577), (4, 1_200_000),
    ];
    let (kind, n) = table[case.idx as usize % table.len()];
    let (name, dag) = bomb(kind, n);
    case.hint(&format!("bomb={}", name));
    case.desc = name.clone();
    case.hash = Some(hash_str(&name));
    let typing = match ast::infer(&dag, true, None) {
        Ok(t) => t,
        Err(e) => return Outcome::Inconclusive(format!("harness: bomb {} ill-typed {:?}", name, e)),
    };
    let (mc, mf) = model_bounds(&dag, &typing);
    let must_refuse = mc > MAX_CELLS || mf > MAX_FRAMES || mf + 2 > MAX_FRAMES;
    let order = ast::natural_order(&dag);
    let redeem = match guard(|| prog::build_redeem(&dag, &order, &[], None, Root::Program)) {
        Ok(Ok(r)) => r,
        Ok(Err(e)) => return violated("well-typed-program-rejected", format!("{}: {}", name, e)),
        Err(pn) => return violated(format!("panic:bounds-arithmetic"), format!("building `{}` (true bounds: {} cells, {} frames) panicked: {}", name, mc, mf, pn)),
    };
    let start = alloc::window_start();
    let mac = guard(|| BitMachine::for_program(&redeem).map(|_| ()));
    let (peak, _) = alloc::window_end(start);
    match mac {
        Err(pn) => violated("panic:for_program", format!("{}: {}", name, pn)),
        Ok(Err(e)) => {
            if !must_refuse {
                return violated("within-limits-refused", format!("`{}` needs {} cells / {} frames (within limits) but for_program refused: {}", name, mc, mf, e));
            }
            if peak > (1 << 20) {
                return violated("refusal-allocates", format!("`{}`: for_program refused but allocated {} bytes first", name, peak));
            }
            case.count("bomb.refused");
            Outcome::Held
        }
        Ok(Ok(())) => {
            if must_refuse {
                return violated(
                    "beyond-limits-accepted",
                    format!("`{}` needs {} cells / {} frames, beyond the hard limits ({} / {}), but for_program accepted it (library bounds say {} cells / {} frames)", name, mc, mf, MAX_CELLS, MAX_FRAMES, redeem.bounds().extra_cells, redeem.bounds().extra_frames),
                );
            }
            case.count("bomb.accepted");
            // small enough to actually run? then the hooks must hold too
            if mc <= (1 << 24) && mf < 2000 {
                match guard(|| prog::run_machine(&redeem, None, &CoreEnv::new())) {
                    Ok(Ok((_, st))) => {
                        if st.frame_oob != 0 || st.hw_cells > st.io_width + st.extra_cells || st.hw_frames > st.extra_frames + 2 {
                            return violated("cells-exceed-bound", format!("`{}`: used {} cells {} frames, bounds {} / {}", name, st.hw_cells, st.hw_frames, st.extra_cells, st.extra_frames));
                        }
                    }
                    Ok(Err(e)) => return violated("machine-refused", e),
                    Err(pn) => return violated("panic:exec", format!("`{}`: {}", name, pn)),
                }
            }
            Outcome::Held
        }
    }
}

pub fn run(ctx: &Ctx) {
    let t = ctx.tier;
    ctx.run_sub("limit-bombs", Plan::enumerate(34, 0.2), |_rng, case| bomb_case(case));
    ctx.run_sub("limit-bombs-wide-io", Plan::enumerate(13, 0.05), |_rng, case| io_bomb_case(case));
    ctx.run_sub("nested-programs", Plan::sample(t.pick(25_000, 1_200_000), 0.4), |rng, case| {
        let fuel = rng.urange(6, t.pick(40, 120));
        exec_case(rng, case, &TyParams { max_width: 48, max_depth: 4, max_word_n: 4 }, fuel, true)
    });
    ctx.run_sub("wide-types", Plan::sample(t.pick(8_000, 400_000), 0.3), |rng, case| {
        let fuel = rng.urange(4, 16);
        exec_case(rng, case, &TyParams { max_width: 1500, max_depth: 6, max_word_n: 9 }, fuel, false)
    });
}
