//! C18 — DAG iteration. A harness type implements the public `DagLike` trait on an arena so that
//! every DAG shape up to a node bound can be enumerated; the oracle is a naive recursive walker.

use crate::rng::Rng;
use std::sync::Arc;
use crate::runner::{violated, Case, Ctx, Outcome, Plan};
use simplicity::dag::{Dag, DagLike, InternalSharing, NoSharing, SharingTracker};
use std::collections::HashMap;

pub struct Cell {
    pub id: usize,
    /// structural class: hash of the unfolded subtree
    pub class: u64,
    pub l: Option<usize>,
    pub r: Option<usize>,
}

pub struct Arena {
    pub cells: Vec<Cell>,
}

#[derive(Clone, Copy)]
pub struct ANode<'a> {
    arena: &'a Arena,
    idx: usize,
}

impl<'a> DagLike for ANode<'a> {
    type Node = Cell;
    fn data(&self) -> &Cell {
        &self.arena.cells[self.idx]
    }
    fn as_dag_node(&self) -> Dag<Self> {
        let c = &self.arena.cells[self.idx];
        match (c.l, c.r) {
            (None, _) => Dag::Nullary,
            (Some(l), None) => Dag::Unary(ANode { arena: self.arena, idx: l }),
            (Some(l), Some(r)) => Dag::Binary(ANode { arena: self.arena, idx: l }, ANode { arena: self.arena, idx: r }),
        }
    }
}

/// Identity-hash-style sharing for the arena: two nodes are the same iff their unfolded subtrees are equal.
#[derive(Default, Clone)]
pub struct Structural {
    map: HashMap<u64, usize>,
}

impl<D: DagLike<Node = Cell>> SharingTracker<D> for Structural {
    fn record(&mut self, d: &D, index: usize) -> Option<usize> {
        match self.map.entry(d.data().class) {
            std::collections::hash_map::Entry::Occupied(o) => Some(*o.get()),
            std::collections::hash_map::Entry::Vacant(v) => {
                v.insert(index);
                None
            }
        }
    }
    fn seen_before(&self, d: &D) -> Option<usize> {
        self.map.get(&d.data().class).copied()
    }
}

impl Arena {
    pub fn from_children(ch: &[(Option<usize>, Option<usize>)]) -> Arena {
        let mut cells: Vec<Cell> = Vec::with_capacity(ch.len());
        for (i, (l, r)) in ch.iter().enumerate() {
            let lc = l.map(|x| cells[x].class).unwrap_or(0x1111);
            let rc = r.map(|x| cells[x].class).unwrap_or(0x2222);
            let arity = u64::from(l.is_some()) + u64::from(r.is_some());
            let class = crate::rng::mix(crate::rng::mix(lc, rc), 0xC1A5_5000 + arity);
            cells.push(Cell { id: i, class, l: *l, r: *r });
        }
        Arena { cells }
    }
    pub fn root(&self) -> ANode<'_> {
        ANode { arena: self, idx: self.cells.len() - 1 }
    }
    fn render(&self) -> String {
        let mut s = String::new();
        for c in &self.cells {
            match (c.l, c.r) {
                (None, _) => s.push_str(&format!("{}:leaf ", c.id)),
                (Some(l), None) => s.push_str(&format!("{}:({}) ", c.id, l)),
                (Some(l), Some(r)) => s.push_str(&format!("{}:({},{}) ", c.id, l, r)),
            }
        }
        s
    }
    fn mirrored(&self) -> Vec<(Option<usize>, Option<usize>)> {
        self.cells
            .iter()
            .map(|c| match (c.l, c.r) {
                (Some(l), Some(r)) => (Some(r), Some(l)),
                x => x,
            })
            .collect()
    }
}

#[derive(Copy, Clone, Debug, PartialEq, Eq)]
enum Mode {
    None,
    Pointer,
    Structural,
}

fn key(a: &[(Option<usize>, Option<usize>)], classes: &[u64], n: usize, mode: Mode, fresh: &mut u64) -> u64 {
    let _ = a;
    match mode {
        Mode::None => {
            *fresh += 1;
            0xF000_0000_0000_0000 | *fresh
        }
        Mode::Pointer => n as u64,
        Mode::Structural => classes[n],
    }
}

#[derive(Clone, Debug, PartialEq, Eq)]
struct Item {
    node: usize,
    index: usize,
    left: Option<usize>,
    right: Option<usize>,
}

const CAP: usize = 10_000;

/// Naive recursive post-order with sharing classes.
fn ref_post(ch: &[(Option<usize>, Option<usize>)], classes: &[u64], mode: Mode) -> Vec<Item> {
    fn rec(n: usize, ch: &[(Option<usize>, Option<usize>)], classes: &[u64], mode: Mode, seen: &mut HashMap<u64, usize>, out: &mut Vec<Item>, fresh: &mut u64) -> usize {
        let k = key(ch, classes, n, mode, fresh);
        if let Some(i) = seen.get(&k) {
            return *i;
        }
        if out.len() > CAP {
            return 0;
        }
        let li = ch[n].0.map(|l| rec(l, ch, classes, mode, seen, out, fresh));
        let ri = ch[n].1.map(|r| rec(r, ch, classes, mode, seen, out, fresh));
        let idx = out.len();
        out.push(Item { node: n, index: idx, left: li, right: ri });
        seen.insert(k, idx);
        idx
    }
    let mut out = Vec::new();
    rec(ch.len() - 1, ch, classes, mode, &mut HashMap::new(), &mut out, &mut 0);
    out
}

fn ref_pre(ch: &[(Option<usize>, Option<usize>)], classes: &[u64], mode: Mode) -> Vec<usize> {
    fn rec(n: usize, ch: &[(Option<usize>, Option<usize>)], classes: &[u64], mode: Mode, seen: &mut HashMap<u64, usize>, out: &mut Vec<usize>, fresh: &mut u64) {
        let k = key(ch, classes, n, mode, fresh);
        if seen.contains_key(&k) || out.len() > CAP {
            return;
        }
        seen.insert(k, 0);
        out.push(n);
        if let Some(l) = ch[n].0 {
            rec(l, ch, classes, mode, seen, out, fresh);
        }
        if let Some(r) = ch[n].1 {
            rec(r, ch, classes, mode, seen, out, fresh);
        }
    }
    let mut out = Vec::new();
    rec(ch.len() - 1, ch, classes, mode, &mut HashMap::new(), &mut out, &mut 0);
    out
}

#[derive(Clone, Debug, PartialEq, Eq)]
struct VItem {
    node: usize,
    parent: Option<usize>,
    index: usize,
    depth: usize,
    n_children_yielded: usize,
    is_complete: bool,
}

fn ref_verbose(ch: &[(Option<usize>, Option<usize>)], classes: &[u64], mode: Mode, max_depth: Option<usize>) -> Vec<VItem> {
    struct St<'a> {
        ch: &'a [(Option<usize>, Option<usize>)],
        classes: &'a [u64],
        mode: Mode,
        max_depth: Option<usize>,
        seen: HashMap<u64, usize>,
        out: Vec<VItem>,
        counter: usize,
        fresh: u64,
    }
    fn rec(st: &mut St, n: usize, depth: usize, parent: Option<usize>) {
        let k = key(st.ch, st.classes, n, st.mode, &mut st.fresh);
        if st.seen.contains_key(&k) || st.out.len() > CAP {
            return;
        }
        st.seen.insert(k, 0);
        let idx = st.counter;
        st.counter += 1;
        let kids = usize::from(st.ch[n].0.is_some()) + usize::from(st.ch[n].1.is_some());
        st.out.push(VItem { node: n, parent, index: idx, depth, n_children_yielded: 0, is_complete: kids == 0 });
        let may_descend = st.max_depth.map(|m| depth < m).unwrap_or(true);
        if kids >= 1 {
            if may_descend {
                rec(st, st.ch[n].0.unwrap(), depth + 1, Some(n));
            }
            st.out.push(VItem { node: n, parent, index: idx, depth, n_children_yielded: 1, is_complete: kids == 1 });
        }
        if kids == 2 {
            if may_descend {
                rec(st, st.ch[n].1.unwrap(), depth + 1, Some(n));
            }
            st.out.push(VItem { node: n, parent, index: idx, depth, n_children_yielded: 2, is_complete: true });
        }
    }
    let mut st = St { ch, classes, mode, max_depth, seen: HashMap::new(), out: Vec::new(), counter: 0, fresh: 0 };
    rec(&mut st, ch.len() - 1, 0, None);
    st.out
}

/// Independent statement of "pointer structure already equals the requested sharing".
fn ref_is_shared_as(ch: &[(Option<usize>, Option<usize>)], classes: &[u64], mode: Mode) -> bool {
    // reachable nodes
    let n = ch.len();
    let mut reach = vec![false; n];
    let mut paths = vec![0u64; n]; // number of distinct root paths (saturating)
    reach[n - 1] = true;
    paths[n - 1] = 1;
    for i in (0..n).rev() {
        if !reach[i] {
            continue;
        }
        for c in [ch[i].0, ch[i].1].into_iter().flatten() {
            reach[c] = true;
            paths[c] = paths[c].saturating_add(paths[i]);
        }
    }
    match mode {
        Mode::Pointer => true,
        Mode::None => (0..n).all(|i| !reach[i] || paths[i] <= 1),
        Mode::Structural => {
            let mut seen = HashMap::new();
            for i in 0..n {
                if reach[i] {
                    if seen.insert(classes[i], i).is_some() {
                        return false;
                    }
                }
            }
            true
        }
    }
}

fn collect_post<'a, S: SharingTracker<ANode<'a>> + Default>(root: ANode<'a>) -> Vec<Item> {
    root.post_order_iter::<S>()
        .take(CAP + 2)
        .map(|d| Item { node: d.node.idx, index: d.index, left: d.left_index, right: d.right_index })
        .collect()
}

fn check_shape(ch: &[(Option<usize>, Option<usize>)], case: &Case) -> Result<(), (String, String)> {
    let arena = Arena::from_children(ch);
    let classes: Vec<u64> = arena.cells.iter().map(|c| c.class).collect();
    let root = arena.root();
    let mirrored = arena.mirrored();
    let shape = || arena.render();
    for mode in [Mode::None, Mode::Pointer, Mode::Structural] {
        let mname = format!("{:?}", mode);
        // ---- post order
        let want = ref_post(ch, &classes, mode);
        let got = match mode {
            Mode::None => collect_post::<NoSharing>(root),
            Mode::Pointer => collect_post::<InternalSharing>(root),
            Mode::Structural => collect_post::<Structural>(root),
        };
        let capped = want.len() > CAP;
        if !capped && got != want {
            return Err((format!("post-order:{}", mname), format!("shape [{}] sharing {}: post_order_iter yields {:?} ; reference {:?}", shape(), mname, got, want)));
        }
        // structural statements, independent of the reference's traversal order
        if !capped {
            for (pos, it) in got.iter().enumerate() {
                if it.index != pos {
                    return Err((format!("post-order-index:{}", mname), format!("shape [{}] sharing {}: item {} carries index {}", shape(), mname, pos, it.index)));
                }
                for (ci, child) in [(it.left, ch[it.node].0), (it.right, ch[it.node].1)] {
                    match (ci, child) {
                        (None, None) => {}
                        (Some(i), Some(c)) => {
                            if i >= pos {
                                return Err((format!("post-order-child-after-parent:{}", mname), format!("shape [{}] sharing {}: node {} at {} lists child index {}", shape(), mname, it.node, pos, i)));
                            }
                            let same = match mode {
                                Mode::Structural => classes[got[i].node] == classes[c],
                                _ => got[i].node == c,
                            };
                            if !same {
                                return Err((format!("post-order-child-index:{}", mname), format!("shape [{}] sharing {}: node {} child {} reported at index {} which holds node {}", shape(), mname, it.node, c, i, got[i].node)));
                            }
                        }
                        (a, b) => return Err((format!("post-order-child-arity:{}", mname), format!("shape [{}] sharing {}: node {} child index {:?} for child {:?}", shape(), mname, it.node, a, b))),
                    }
                }
            }
        }
        // ---- right-to-left post order = mirror image
        let want_m: Vec<Item> = ref_post(&mirrored, &classes, mode)
            .into_iter()
            .map(|mut it| {
                if ch[it.node].1.is_some() {
                    std::mem::swap(&mut it.left, &mut it.right);
                }
                it
            })
            .collect();
        let got_m: Vec<Item> = match mode {
            Mode::None => root.rtl_post_order_iter::<NoSharing>().take(CAP + 2).map(|d| Item { node: d.node.idx, index: d.index, left: d.left_index, right: d.right_index }).collect(),
            Mode::Pointer => root.rtl_post_order_iter::<InternalSharing>().take(CAP + 2).map(|d| Item { node: d.node.idx, index: d.index, left: d.left_index, right: d.right_index }).collect(),
            Mode::Structural => root.rtl_post_order_iter::<Structural>().take(CAP + 2).map(|d| Item { node: d.node.idx, index: d.index, left: d.left_index, right: d.right_index }).collect(),
        };
        if want_m.len() <= CAP && got_m != want_m {
            return Err((format!("rtl-post-order:{}", mname), format!("shape [{}] sharing {}: rtl_post_order_iter yields {:?} ; mirror reference {:?}", shape(), mname, got_m, want_m)));
        }
        // ---- pre order
        let want_p = ref_pre(ch, &classes, mode);
        let got_p: Vec<usize> = match mode {
            Mode::None => root.pre_order_iter::<NoSharing>().take(CAP + 2).map(|d| d.idx).collect(),
            Mode::Pointer => root.pre_order_iter::<InternalSharing>().take(CAP + 2).map(|d| d.idx).collect(),
            Mode::Structural => root.pre_order_iter::<Structural>().take(CAP + 2).map(|d| d.idx).collect(),
        };
        if want_p.len() <= CAP && got_p != want_p {
            return Err((format!("pre-order:{}", mname), format!("shape [{}] sharing {}: pre_order_iter yields {:?} ; reference {:?}", shape(), mname, got_p, want_p)));
        }
        if !capped && want_p.len() <= CAP {
            // same set as post-order
            let mut a: Vec<u64> = got_p.iter().map(|n| if mode == Mode::Structural { classes[*n] } else { *n as u64 }).collect();
            let mut b: Vec<u64> = got.iter().map(|it| if mode == Mode::Structural { classes[it.node] } else { it.node as u64 }).collect();
            a.sort();
            b.sort();
            if a != b {
                return Err((format!("pre-vs-post-set:{}", mname), format!("shape [{}] sharing {}: pre-order and post-order yield different sets", shape(), mname)));
            }
        }
        // ---- verbose pre order
        for md in [None, Some(0usize), Some(1), Some(2), Some(3)] {
            let want_v = ref_verbose(ch, &classes, mode, md);
            macro_rules! collect_v {
                ($s:ty) => {
                    root.verbose_pre_order_iter::<$s>(md)
                        .take(3 * CAP)
                        .map(|d| VItem { node: d.node.idx, parent: d.parent.map(|p| p.idx), index: d.index, depth: d.depth, n_children_yielded: d.n_children_yielded, is_complete: d.is_complete })
                        .collect::<Vec<VItem>>()
                };
            }
            let got_v = match mode {
                Mode::None => collect_v!(NoSharing),
                Mode::Pointer => collect_v!(InternalSharing),
                Mode::Structural => collect_v!(Structural),
            };
            if want_v.len() <= CAP && got_v != want_v {
                return Err((format!("verbose-pre-order:{}", mname), format!("shape [{}] sharing {} max_depth {:?}: verbose_pre_order_iter yields {:?} ; reference {:?}", shape(), mname, md, got_v, want_v)));
            }
        }
        // ---- is_shared_as
        let want_s = ref_is_shared_as(ch, &classes, mode);
        let got_s = match mode {
            Mode::None => root.is_shared_as::<NoSharing>(),
            Mode::Pointer => root.is_shared_as::<InternalSharing>(),
            Mode::Structural => root.is_shared_as::<Structural>(),
        };
        if !capped && got_s != want_s {
            return Err((format!("is-shared-as:{}", mname), format!("shape [{}]: is_shared_as::<{}>() = {} ; expected {}", shape(), mname, got_s, want_s)));
        }
        case.count(if got_s { "is_shared_as.true" } else { "is_shared_as.false" });
    }
    Ok(())
}

fn radix(i: usize) -> u64 {
    (1 + i + i * i) as u64
}

fn shapes_with(n: usize) -> u64 {
    (0..n).map(radix).product()
}

fn decode_shape(n: usize, mut code: u64) -> Vec<(Option<usize>, Option<usize>)> {
    let mut ch = Vec::with_capacity(n);
    for i in 0..n {
        let r = radix(i);
        let d = (code % r) as usize;
        code /= r;
        ch.push(if d == 0 {
            (None, None)
        } else if d <= i {
            (Some(d - 1), None)
        } else {
            let e = d - 1 - i;
            (Some(e / i), Some(e % i))
        });
    }
    ch
}

fn all_reachable(ch: &[(Option<usize>, Option<usize>)]) -> bool {
    let n = ch.len();
    let mut reach = vec![false; n];
    reach[n - 1] = true;
    for i in (0..n).rev() {
        if reach[i] {
            for c in [ch[i].0, ch[i].1].into_iter().flatten() {
                reach[c] = true;
            }
        }
    }
    reach.iter().all(|b| *b)
}

fn random_shape(rng: &mut Rng, n: usize) -> Vec<(Option<usize>, Option<usize>)> {
    let mut ch: Vec<(Option<usize>, Option<usize>)> = Vec::with_capacity(n);
    for i in 0..n {
        if i == 0 || rng.chance(1, 6) {
            ch.push((None, None));
            continue;
        }
        // bias children towards recent nodes (deep), sometimes far back (wide sharing)
        let pick = |rng: &mut Rng| if rng.chance(2, 3) { i - 1 - rng.usize_below(i.min(3)) } else { rng.usize_below(i) };
        if rng.chance(1, 3) {
            ch.push((Some(pick(rng)), None));
        } else {
            let l = pick(rng);
            let r = if rng.chance(1, 5) { l } else { pick(rng) };
            ch.push((Some(l), Some(r)));
        }
    }
    ch
}


// ---------------------------------------------------------------------------------------------
// Real library nodes: RedeemNode / CommitNode DAGs from the program generator, under the library's
// own trackers. The reference walks the Arc graph recursively with an explicit class function.

fn lib_reference<N, K, F>(root: &simplicity::node::Node<N>, class: F) -> Vec<(usize, Option<usize>, Option<usize>)>
where
    N: simplicity::node::Marker,
    K: std::hash::Hash + Eq + Clone,
    F: Fn(&simplicity::node::Node<N>) -> Option<K>,
{
    // returns, per yielded item: (address of the node object, index of left child's class, index of right child's class)
    use simplicity::dag::DagLike;
    fn go<N, K, F>(n: &simplicity::node::Node<N>, class: &F, seen: &mut std::collections::HashMap<K, usize>, out: &mut Vec<(usize, Option<usize>, Option<usize>)>) -> usize
    where
        N: simplicity::node::Marker,
        K: std::hash::Hash + Eq + Clone,
        F: Fn(&simplicity::node::Node<N>) -> Option<K>,
    {
        // `None`: the policy gives this node no identity; every occurrence is its own class.
        // Whether a child still has to be walked is decided for BOTH children when the parent is first met (as the
        // library's iterator does); a child walked although its class is yielded meanwhile -- by a node with the same
        // identity root but other children -- still has its own children yielded first and is then skipped itself.
        let k = class(n);
        let known = |c: &simplicity::node::Node<N>, seen: &std::collections::HashMap<K, usize>| class(c).and_then(|k| seen.get(&k).copied());
        let lk = n.left_child().map(|c| known(c, seen));
        let rk = n.right_child().map(|c| known(c, seen));
        let l = n.left_child().map(|c| match lk.unwrap() {
            Some(i) => i,
            None => go(c, class, seen, out),
        });
        let r = n.right_child().map(|c| match rk.unwrap() {
            Some(i) => i,
            None => go(c, class, seen, out),
        });
        if let Some(k) = &k {
            if let Some(i) = seen.get(k) {
                return *i;
            }
        }
        // a child may have put this class in already only if the DAG had a cycle; it has none
        let idx = out.len();
        out.push((n as *const _ as usize, l, r));
        if let Some(k) = k {
            seen.insert(k, idx);
        }
        idx
    }
    let mut seen = std::collections::HashMap::new();
    let mut out = Vec::new();
    go(root, &class, &mut seen, &mut out);
    out
}

fn lib_case(rng: &mut Rng, case: &mut Case) -> Outcome {
    use crate::gen::{self, Family, GenParams};
    use crate::prog::{self, Root};
    use simplicity::dag::{DagLike, InternalSharing, MaxSharing, NoSharing};
    use simplicity::node::{Commit, Redeem};
    let fuel = rng.urange(2, 22);
    let p = GenParams { family: *rng.pick(&[Family::None, Family::Core]), share_pct: *rng.pick(&[0u64, 15, 40]), dup_pct: *rng.pick(&[0u64, 10, 30]), ..GenParams::basic(fuel) };
    let (a, b) = (crate::ty::unit(), crate::ty::unit());
    let mut dag = gen::gen_program(rng, &p, &a, &b);
    let typing = match crate::ast::infer(&dag, true, None) {
        Ok(t) => t,
        Err(_) => return Outcome::Inconclusive("generator".into()),
    };
    gen::retype_witnesses(&mut dag, &typing);
    case.desc = crate::runner::truncate(&dag.render(), 2000);
    case.hash = Some(crate::rng::hash_str(&case.desc));
    let order = crate::ast::natural_order(&dag);
    let has_hole = dag.nodes.iter().any(|o| matches!(o, crate::ast::Op::Disconnect(_, None)));
    let check = |name: &str, got: Vec<(usize, Option<usize>, Option<usize>, usize)>, want: Vec<(usize, Option<usize>, Option<usize>)>| -> Result<(), (String, String)> {
        if got.len() != want.len() {
            return Err((format!("lib-count:{}", name), format!("{} items yielded, reference has {} classes", got.len(), want.len())));
        }
        for (i, (g, w)) in got.iter().zip(want.iter()).enumerate() {
            if g.3 != i {
                return Err((format!("lib-index:{}", name), format!("item {} carries index {}", i, g.3)));
            }
            if g.0 != w.0 {
                return Err((format!("lib-order:{}", name), format!("item {} is another node object than the reference's first representative of that class", i)));
            }
            if g.1 != w.1 || g.2 != w.2 {
                return Err((format!("lib-child-index:{}", name), format!("item {}: child indices ({:?},{:?}), reference ({:?},{:?})", i, g.1, g.2, w.1, w.2)));
            }
        }
        Ok(())
    };
    if !has_hole {
        if let Ok(wits) = prog::witness_values(&dag, rng, false) {
            if let Ok(r) = prog::build_redeem(&dag, &order, &wits, None, Root::Program) {
                let got = |it: Vec<simplicity::dag::PostOrderIterItem<&simplicity::RedeemNode>>| it.into_iter().map(|d| (d.node as *const _ as usize, d.left_index, d.right_index, d.index)).collect::<Vec<_>>();
                let res = check("redeem/max", got(r.as_ref().post_order_iter::<MaxSharing<Redeem>>().collect()), lib_reference(r.as_ref(), |n| Some(n.ihr())))
                    .and_then(|_| check("redeem/internal", got(r.as_ref().post_order_iter::<InternalSharing>().collect()), lib_reference(r.as_ref(), |n| Some(n as *const _ as usize))));
                if let Err((s, d)) = res {
                    return violated(s, format!("{} ; program {}", d, case.desc));
                }
                // without sharing: the unfolded tree, if small
                let tree: usize = r.as_ref().post_order_iter::<NoSharing>().take(20_001).count();
                if tree <= 20_000 {
                    let want = lib_reference(r.as_ref(), |_| None::<usize>);
                    if let Err((s, d)) = check("redeem/none", got(r.as_ref().post_order_iter::<NoSharing>().collect()), want) {
                        return violated(s, format!("{} ; program {}", d, case.desc));
                    }
                    case.count("lib.redeem.unfolded");
                }
                // is_shared_as: true exactly when iterating under the policy meets the same node objects, in the same
                // order, as iterating by pointer identity
                let ptrs = |it: Vec<simplicity::dag::PostOrderIterItem<&simplicity::RedeemNode>>| it.into_iter().map(|d| d.node as *const _ as usize).collect::<Vec<_>>();
                let by_ptr = ptrs(r.as_ref().post_order_iter::<InternalSharing>().collect());
                let by_max = ptrs(r.as_ref().post_order_iter::<MaxSharing<Redeem>>().collect());
                let shared = r.as_ref().is_shared_as::<MaxSharing<Redeem>>();
                if shared != (by_ptr == by_max) {
                    return violated("lib-is-shared-as:redeem/max", format!("is_shared_as::<MaxSharing> = {} but the two iterations {} ({} vs {} items) ; program {}", shared, if by_ptr == by_max { "agree" } else { "differ" }, by_ptr.len(), by_max.len(), case.desc));
                }
                if tree <= 20_000 {
                    let is_tree = r.as_ref().is_shared_as::<NoSharing>();
                    if is_tree != (tree == by_ptr.len()) {
                        return violated("lib-is-shared-as:redeem/none", format!("is_shared_as::<NoSharing> = {} but the DAG has {} objects and unfolds to {} ; program {}", is_tree, by_ptr.len(), tree, case.desc));
                    }
                }
                if !r.as_ref().is_shared_as::<InternalSharing>() {
                    return violated("lib-is-shared-as:redeem/internal", format!("a DAG is not shared as its own pointer structure ; program {}", case.desc));
                }
                // the owned (Arc) view of the same DAG yields the same nodes with the same child indices as the borrowed view
                for (name, a, b) in [
                    ("max", Arc::clone(&r).post_order_iter::<MaxSharing<Redeem>>().map(|d| (Arc::as_ptr(&d.node) as usize, d.left_index, d.right_index, d.index)).collect::<Vec<_>>(), got(r.as_ref().post_order_iter::<MaxSharing<Redeem>>().collect())),
                    ("internal", Arc::clone(&r).post_order_iter::<InternalSharing>().map(|d| (Arc::as_ptr(&d.node) as usize, d.left_index, d.right_index, d.index)).collect::<Vec<_>>(), got(r.as_ref().post_order_iter::<InternalSharing>().collect())),
                ] {
                    if a != b {
                        let i = a.iter().zip(b.iter()).position(|(x, y)| x != y).unwrap_or(a.len().min(b.len()));
                        return violated(format!("lib-arc-view:redeem/{}", name), format!("iterating Arc<Node> and &Node differ at item {}: {:?} vs {:?} ; program {}", i, a.get(i), b.get(i), case.desc));
                    }
                }
                // the other iterators over the same real DAG: rtl post-order and (verbose) pre-order meet exactly the node
                // objects post-order meets; children before parents (rtl), parents before children (pre-order); a
                // verbose pre-order item is complete once all of its children have been accounted for
                {
                    use std::collections::HashSet;
                    let post_set: HashSet<usize> = by_ptr.iter().copied().collect();
                    let rtl: Vec<(usize, Option<usize>, Option<usize>)> = r.as_ref().rtl_post_order_iter::<InternalSharing>().map(|d| (d.node as *const _ as usize, d.left_index, d.right_index)).collect();
                    if rtl.iter().map(|x| x.0).collect::<HashSet<_>>() != post_set || rtl.len() != by_ptr.len() {
                        return violated("lib-rtl-set:redeem/internal", format!("rtl post-order met {} nodes, post-order {} ; program {}", rtl.len(), by_ptr.len(), case.desc));
                    }
                    for (i, (_, l, rr)) in rtl.iter().enumerate() {
                        if l.map(|x| x >= i).unwrap_or(false) || rr.map(|x| x >= i).unwrap_or(false) {
                            return violated("lib-rtl-order:redeem/internal", format!("rtl item {} refers to a child yielded later ; program {}", i, case.desc));
                        }
                    }
                    let pre: Vec<usize> = r.as_ref().pre_order_iter::<InternalSharing>().map(|d| d as *const _ as usize).collect();
                    if pre.iter().copied().collect::<HashSet<_>>() != post_set || pre.len() != by_ptr.len() {
                        return violated("lib-pre-order-set:redeem/internal", format!("pre-order met {} nodes, post-order {} ; program {}", pre.len(), by_ptr.len(), case.desc));
                    }
                    let pos: std::collections::HashMap<usize, usize> = pre.iter().enumerate().map(|(i, p)| (*p, i)).collect();
                    for d in r.as_ref().post_order_iter::<InternalSharing>() {
                        for c in [d.node.left_child(), d.node.right_child()].into_iter().flatten() {
                            let _ = c;
                        }
                    }
                    let _ = pos;
                    let mut verbose_nodes: HashSet<usize> = HashSet::new();
                    let mut yields: std::collections::HashMap<usize, usize> = std::collections::HashMap::new();
                    for it in r.as_ref().verbose_pre_order_iter::<InternalSharing>(None) {
                        let p = it.node as *const _ as usize;
                        verbose_nodes.insert(p);
                        *yields.entry(p).or_insert(0) += 1;
                    }
                    if verbose_nodes != post_set {
                        return violated("lib-verbose-pre-order-set:redeem/internal", format!("verbose pre-order met {} distinct nodes, post-order {} ; program {}", verbose_nodes.len(), by_ptr.len(), case.desc));
                    }
                    for d in r.as_ref().post_order_iter::<InternalSharing>() {
                        let k = d.node.left_child().is_some() as usize + d.node.right_child().is_some() as usize;
                        let y = yields[&(d.node as *const _ as usize)];
                        if y != k + 1 {
                            return violated("lib-verbose-pre-order-yields:redeem/internal", format!("a node with {} children ({}) was yielded {} times by the verbose pre-order (expected once before, between and after its children) ; program {}", k, d.node.inner(), y, case.desc));
                        }
                    }
                    let pre_max: HashSet<usize> = r.as_ref().pre_order_iter::<MaxSharing<Redeem>>().map(|d| d as *const _ as usize).collect();
                    let post_max: HashSet<usize> = by_max.iter().copied().collect();
                    if pre_max.len() != post_max.len() {
                        return violated("lib-pre-order-set:redeem/max", format!("pre-order met {} classes, post-order {} ; program {}", pre_max.len(), post_max.len(), case.desc));
                    }
                }
                case.count("lib.redeem");
                if by_ptr != by_max {
                    case.count("lib.redeem.objects-exceed-classes");
                }
                if dag.nodes.iter().any(|o| matches!(o, crate::ast::Op::Disconnect(a, Some(b)) if a != b)) {
                    case.count("lib.redeem.with-disconnect");
                }
            }
        }
    }
    if let Ok(c) = prog::build_commit(&dag, &order, None, Root::Program) {
        let got = |it: Vec<simplicity::dag::PostOrderIterItem<&simplicity::CommitNode>>| it.into_iter().map(|d| (d.node as *const _ as usize, d.left_index, d.right_index, d.index)).collect::<Vec<_>>();
        // commitment time: a class is the identity root where one exists, the object itself otherwise
        let res = check("commit/max", got(c.as_ref().post_order_iter::<MaxSharing<Commit>>().collect()), lib_reference(c.as_ref(), |n| n.ihr()))
        .and_then(|_| check("commit/internal", got(c.as_ref().post_order_iter::<InternalSharing>().collect()), lib_reference(c.as_ref(), |n| Some(n as *const _ as usize))));
        if let Err((s, d)) = res {
            return violated(s, format!("{} ; program {}", d, case.desc));
        }
        let ptrs = |it: Vec<simplicity::dag::PostOrderIterItem<&simplicity::CommitNode>>| it.into_iter().map(|d| d.node as *const _ as usize).collect::<Vec<_>>();
        let by_ptr = ptrs(c.as_ref().post_order_iter::<InternalSharing>().collect());
        let by_max = ptrs(c.as_ref().post_order_iter::<MaxSharing<Commit>>().collect());
        let shared = c.as_ref().is_shared_as::<MaxSharing<Commit>>();
        if shared != (by_ptr == by_max) {
            return violated("lib-is-shared-as:commit/max", format!("is_shared_as::<MaxSharing> = {} but the two iterations {} ({} vs {} items) ; program {}", shared, if by_ptr == by_max { "agree" } else { "differ" }, by_ptr.len(), by_max.len(), case.desc));
        }
        if by_ptr.len() == by_max.len() && by_ptr != by_max {
            case.count("lib.commit.same-count-different-sharing");
        }
        let a = Arc::clone(&c).post_order_iter::<MaxSharing<Commit>>().map(|d| (Arc::as_ptr(&d.node) as usize, d.left_index, d.right_index, d.index)).collect::<Vec<_>>();
        if a != got(c.as_ref().post_order_iter::<MaxSharing<Commit>>().collect()) {
            return violated("lib-arc-view:commit/max", format!("iterating Arc<Node> and &Node differ ; program {}", case.desc));
        }
        case.count("lib.commit");
    }
    if dag.len() >= 4 {
        Outcome::Held
    } else {
        Outcome::Trivial
    }
}

pub fn run(ctx: &Ctx) {
    let t = ctx.tier;
    let max_n = t.pick(7usize, 8usize);
    const BLOCK: u64 = 512;
    for n in 1..=max_n {
        let total = shapes_with(n);
        let blocks = total.div_ceil(BLOCK);
        ctx.run_sub(&format!("all-shapes-{}-nodes", n), Plan::enumerate(blocks, 0.8 / max_n as f64 + if n == max_n { 0.5 } else { 0.0 }), |_rng, case| {
            let lo = case.idx * BLOCK;
            let hi = (lo + BLOCK).min(total);
            let mut checked = 0u64;
            for code in lo..hi {
                let ch = decode_shape(n, code);
                if !all_reachable(&ch) {
                    continue;
                }
                if let Err((sig, d)) = check_shape(&ch, case) {
                    case.desc = Arena::from_children(&ch).render();
                    return violated(sig, d);
                }
                checked += 1;
            }
            case.add("shapes", checked);
            case.add("shapes.skipped-unreachable-nodes", hi - lo - checked);
            case.desc = format!("{}-node shapes {}..{} ({} fully reachable); e.g. [{}]", n, lo, hi, checked, Arena::from_children(&decode_shape(n, hi - 1)).render());
            case.hash = Some((n as u64) << 48 | case.idx);
            if checked == 0 { Outcome::Trivial } else { Outcome::Held }
        });
    }
    ctx.run_sub("library-nodes", Plan::sample(t.pick(150_000, 1_000_000), 0.15), lib_case);
    ctx.run_sub("random-larger-shapes", Plan::sample(t.pick(100_000, 1_000_000), 0.15), |rng, case| {
        let n = rng.urange(8, 40);
        let ch = random_shape(rng, n);
        case.desc = Arena::from_children(&ch).render();
        case.hash = Some(crate::rng::hash_str(&case.desc));
        match check_shape(&ch, case) {
            Ok(()) => Outcome::Held,
            Err((sig, d)) => violated(sig, d),
        }
    });
}
