//! Deterministic PRNG (SplitMix64 seeding a xoshiro256**). No other entropy source is used anywhere.

#[derive(Clone, Debug)]
pub struct Rng {
    s: [u64; 4],
}

pub fn splitmix(x: &mut u64) -> u64 {
    *x = x.wrapping_add(0x9E37_79B9_7F4A_7C15);
    let mut z = *x;
    z = (z ^ (z >> 30)).wrapping_mul(0xBF58_476D_1CE4_E5B9);
    z = (z ^ (z >> 27)).wrapping_mul(0x94D0_49BB_1331_11EB);
    z ^ (z >> 31)
}

/// Mix two words into one (used to derive per-case seeds).
pub fn mix(a: u64, b: u64) -> u64 {
    let mut x = a ^ b.rotate_left(32) ^ 0xD6E8_FEB8_6659_FD93;
    let r = splitmix(&mut x);
    let mut y = r ^ b;
    splitmix(&mut y)
}

pub fn hash_str(s: &str) -> u64 {
    // FNV-1a, then mixed.
    let mut h: u64 = 0xcbf2_9ce4_8422_2325;
    for b in s.as_bytes() {
        h ^= u64::from(*b);
        h = h.wrapping_mul(0x0000_0100_0000_01B3);
    }
    mix(h, 0x1234_5678)
}

pub fn hash_bytes(s: &[u8]) -> u64 {
    let mut h: u64 = 0xcbf2_9ce4_8422_2325;
    for b in s {
        h ^= u64::from(*b);
        h = h.wrapping_mul(0x0000_0100_0000_01B3);
    }
    mix(h, s.len() as u64)
}

impl Rng {
    pub fn new(seed: u64) -> Self {
        let mut x = seed;
        let s = [
            splitmix(&mut x),
            splitmix(&mut x),
            splitmix(&mut x),
            splitmix(&mut x),
        ];
        Rng { s }
    }

    pub fn next_u64(&mut self) -> u64 {
        let result = self.s[1].wrapping_mul(5).rotate_left(7).wrapping_mul(9);
        let t = self.s[1] << 17;
        self.s[2] ^= self.s[0];
        self.s[3] ^= self.s[1];
        self.s[1] ^= self.s[2];
        self.s[0] ^= self.s[3];
        self.s[2] ^= t;
        self.s[3] = self.s[3].rotate_left(45);
        result
    }

    pub fn next_u32(&mut self) -> u32 {
        (self.next_u64() >> 32) as u32
    }

    /// Uniform in `0..n` (n > 0).
    pub fn below(&mut self, n: u64) -> u64 {
        assert!(n > 0);
        // Rejection-free multiply-shift is fine for our purposes.
        ((u128::from(self.next_u64()) * u128::from(n)) >> 64) as u64
    }

    pub fn usize_below(&mut self, n: usize) -> usize {
        self.below(n as u64) as usize
    }

    /// Uniform in `lo..=hi`.
    pub fn range(&mut self, lo: u64, hi: u64) -> u64 {
        assert!(lo <= hi);
        if lo == 0 && hi == u64::MAX {
            return self.next_u64();
        }
        lo + self.below(hi - lo + 1)
    }

    pub fn urange(&mut self, lo: usize, hi: usize) -> usize {
        self.range(lo as u64, hi as u64) as usize
    }

    pub fn bool(&mut self) -> bool {
        self.next_u64() & 1 == 1
    }

    /// True with probability num/den.
    pub fn chance(&mut self, num: u64, den: u64) -> bool {
        self.below(den) < num
    }

    pub fn bytes(&mut self, n: usize) -> Vec<u8> {
        let mut v = Vec::with_capacity(n);
        while v.len() < n {
            let w = self.next_u64().to_le_bytes();
            let take = (n - v.len()).min(8);
            v.extend_from_slice(&w[..take]);
        }
        v
    }

    pub fn fill(&mut self, buf: &mut [u8]) {
        let v = self.bytes(buf.len());
        buf.copy_from_slice(&v);
    }

    pub fn pick<'a, T>(&mut self, items: &'a [T]) -> &'a T {
        &items[self.usize_below(items.len())]
    }

    /// Pick an index according to integer weights.
    pub fn weighted(&mut self, weights: &[u32]) -> usize {
        let total: u64 = weights.iter().map(|w| u64::from(*w)).sum();
        assert!(total > 0);
        let mut x = self.below(total);
        for (i, w) in weights.iter().enumerate() {
            let w = u64::from(*w);
            if x < w {
                return i;
            }
            x -= w;
        }
        weights.len() - 1
    }

    pub fn shuffle<T>(&mut self, items: &mut [T]) {
        for i in (1..items.len()).rev() {
            let j = self.usize_below(i + 1);
            items.swap(i, j);
        }
    }

    /// A length skewed towards small values, in `0..=max`.
    pub fn skewed(&mut self, max: usize) -> usize {
        if max == 0 {
            return 0;
        }
        let bits = 64 - (max as u64).leading_zeros();
        let b = self.below(u64::from(bits) + 1) as u32;
        let cap = if b >= 63 { u64::MAX } else { (1u64 << b).saturating_sub(0) };
        (self.below(cap.max(1)) as usize).min(max)
    }

    pub fn fork(&mut self) -> Rng {
        Rng::new(self.next_u64())
    }
}
