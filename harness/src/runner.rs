//! Worker-side case runner: per-case seeding, panic capture, progress marker for crash
//! attribution, counters / samples / distinct-hash bookkeeping and the summary file
//! that the driver merges into the evidence JSON.

use crate::rng::{hash_str, mix, Rng};
use std::collections::{BTreeMap, HashSet};
use std::fmt::Write as _;
use std::fs::{self, File};
use std::io::Write as _;
use std::os::unix::fs::FileExt;
use std::panic::{self, AssertUnwindSafe};
use std::path::PathBuf;
use std::sync::atomic::{AtomicBool, Ordering};
use std::sync::{Arc, Mutex};
use std::time::Instant;

#[derive(Copy, Clone, Debug, PartialEq, Eq)]
pub enum Tier {
    Quick,
    Thorough,
}

impl Tier {
    pub fn pick<T>(self, quick: T, thorough: T) -> T {
        match self {
            Tier::Quick => quick,
            Tier::Thorough => thorough,
        }
    }
    pub fn name(self) -> &'static str {
        self.pick("quick", "thorough")
    }
}

/// Verdict of one case. Three-valued plus `Trivial` (held, but does not count as evidence).
#[derive(Clone, Debug)]
pub enum Outcome {
    Held,
    Trivial,
    Inconclusive(String),
    Violated { sig: String, detail: String },
}

pub fn violated(sig: impl Into<String>, detail: impl Into<String>) -> Outcome {
    Outcome::Violated {
        sig: sig.into(),
        detail: detail.into(),
    }
}

/// Per-case scratch given to the case closure.
pub struct Case<'a> {
    pub idx: u64,
    pub seed: u64,
    /// Human-readable rendering of the case (goes into samples and replay files).
    pub desc: String,
    /// Hash of the canonical form, for distinct counting. `None` = do not count.
    pub hash: Option<u64>,
    pub sub: String,
    ctx: &'a Ctx,
}

impl Case<'_> {
    /// Record what is about to be run, so that a process death can be attributed.
    pub fn hint(&self, h: &str) {
        self.ctx.write_progress(self.idx, &format!("{}|{}", self.sub, h));
    }
    pub fn count(&self, key: &str) {
        self.ctx.count(key, 1);
    }
    pub fn add(&self, key: &str, n: u64) {
        self.ctx.count(key, n);
    }
    pub fn max(&self, key: &str, n: u64) {
        self.ctx.max(key, n);
    }
    pub fn tier(&self) -> Tier {
        self.ctx.tier
    }
    pub fn replaying(&self) -> bool {
        self.ctx.one.is_some()
    }
}

#[derive(Clone, Debug)]
pub struct Violation {
    pub sub: String,
    pub idx: u64,
    pub sig: String,
    pub detail: String,
    pub desc: String,
}

pub struct Plan {
    /// Total number of case indices over all shards (the enumeration bound, or the sample count).
    pub cases: u64,
    /// Share of the worker's time budget this sub-check may use before it is cut short.
    pub time_share: f64,
    /// Is this a complete enumeration of a finite space (so that being cut short matters)?
    pub exhaustive: bool,
}

impl Plan {
    pub fn sample(cases: u64, time_share: f64) -> Plan {
        Plan {
            cases,
            time_share,
            exhaustive: false,
        }
    }
    pub fn enumerate(cases: u64, time_share: f64) -> Plan {
        Plan {
            cases,
            time_share,
            exhaustive: true,
        }
    }
}

struct State {
    counters: BTreeMap<String, u64>,
    maxes: BTreeMap<String, u64>,
    samples: BTreeMap<String, Vec<String>>,
    violations: Vec<Violation>,
    distinct: HashSet<u64>,
    distinct_capped: bool,
    evaluations: u64,
    nontrivial: u64,
    inconclusive: BTreeMap<String, u64>,
    subs: BTreeMap<String, SubStat>,
    notes: Vec<String>,
    last_flush: Instant,
}

#[derive(Clone, Debug, Default)]
struct SubStat {
    planned: u64,
    done: u64,
    complete: bool,
    exhaustive: bool,
    wall_ms: u64,
}

pub struct Ctx {
    pub prop: String,
    pub tier: Tier,
    pub seed: u64,
    pub shard: u64,
    pub nshards: u64,
    pub budget_ms: u64,
    pub out_dir: PathBuf,
    /// Replay mode: run exactly this (sub, idx).
    pub one: Option<(String, u64)>,
    /// Resume mode after a crash: skip everything up to and including (sub, idx).
    pub resume: Option<(String, u64)>,
    /// Extra free-form parameters (key=value) passed by the driver.
    pub params: BTreeMap<String, String>,
    start: Instant,
    progress: Option<File>,
    state: Mutex<State>,
    resumed: AtomicBool,
}

const DISTINCT_CAP: usize = 3_000_000;
const MAX_VIOLATIONS: usize = 25;

impl Ctx {
    pub fn from_args(args: &[String]) -> Ctx {
        let mut prop = String::new();
        let mut tier = Tier::Quick;
        let mut seed = 1u64;
        let mut shard = 0u64;
        let mut nshards = 1u64;
        let mut budget_ms = 60_000u64;
        let mut out_dir = PathBuf::from("/tmp/vw-out");
        let mut one = None;
        let mut resume = None;
        let mut params = BTreeMap::new();
        let mut i = 0;
        while i < args.len() {
            let a = args[i].as_str();
            let mut next = || {
                i += 1;
                args.get(i).cloned().unwrap_or_else(|| {
                    eprintln!("missing value for {}", a);
                    std::process::exit(2)
                })
            };
            match a {
                "--tier" => {
                    tier = match next().as_str() {
                        "quick" => Tier::Quick,
                        "thorough" => Tier::Thorough,
                        t => {
                            eprintln!("bad tier {}", t);
                            std::process::exit(2)
                        }
                    }
                }
                "--seed" => seed = next().parse().expect("seed"),
                "--shard" => shard = next().parse().expect("shard"),
                "--nshards" => nshards = next().parse().expect("nshards"),
                "--budget-ms" => budget_ms = next().parse().expect("budget"),
                "--out" => out_dir = PathBuf::from(next()),
                "--one" => {
                    let s = next();
                    let k = next().parse().expect("idx");
                    one = Some((s, k));
                }
                "--resume" => {
                    let s = next();
                    let k = next().parse().expect("idx");
                    resume = Some((s, k));
                }
                "--param" => {
                    let kv = next();
                    let (k, v) = kv.split_once('=').expect("key=value");
                    params.insert(k.to_string(), v.to_string());
                }
                other if prop.is_empty() && !other.starts_with("--") => prop = other.to_string(),
                other => {
                    eprintln!("unknown argument {}", other);
                    std::process::exit(2)
                }
            }
            i += 1;
        }
        fs::create_dir_all(&out_dir).ok();
        let progress = if one.is_none() {
            File::create(out_dir.join(format!("w{}.progress", shard))).ok()
        } else {
            None
        };
        Ctx {
            prop,
            tier,
            seed,
            shard,
            nshards,
            budget_ms,
            out_dir,
            one,
            resume,
            params,
            start: Instant::now(),
            progress,
            state: Mutex::new(State {
                counters: BTreeMap::new(),
                maxes: BTreeMap::new(),
                samples: BTreeMap::new(),
                violations: Vec::new(),
                distinct: HashSet::new(),
                distinct_capped: false,
                evaluations: 0,
                nontrivial: 0,
                inconclusive: BTreeMap::new(),
                subs: BTreeMap::new(),
                notes: Vec::new(),
                last_flush: Instant::now(),
            }),
            resumed: AtomicBool::new(false),
        }
    }

    pub fn param_u64(&self, key: &str, default: u64) -> u64 {
        self.params
            .get(key)
            .and_then(|v| v.parse().ok())
            .unwrap_or(default)
    }

    pub fn elapsed_ms(&self) -> u64 {
        self.start.elapsed().as_millis() as u64
    }

    pub fn count(&self, key: &str, n: u64) {
        let mut st = self.state.lock().unwrap();
        *st.counters.entry(key.to_string()).or_insert(0) += n;
    }

    pub fn max(&self, key: &str, n: u64) {
        let mut st = self.state.lock().unwrap();
        let e = st.maxes.entry(key.to_string()).or_insert(0);
        if n > *e {
            *e = n;
        }
    }

    pub fn note(&self, s: impl Into<String>) {
        self.state.lock().unwrap().notes.push(s.into());
    }

    fn write_progress(&self, idx: u64, hint: &str) {
        if let Some(f) = &self.progress {
            let mut line = format!("{}\t{}\n", idx, hint.replace(['\n', '\t'], " "));
            if line.len() > 400 {
                line.truncate(399);
                line.push('\n');
            }
            // fixed-size record so a shorter later record fully overwrites an earlier one
            let mut rec = vec![b' '; 512];
            rec[..line.len()].copy_from_slice(line.as_bytes());
            rec[511] = b'\n';
            let _ = f.write_at(&rec, 0);
        }
    }

    /// Run one sub-check: `f(rng, case)` for every case index owned by this shard.
    pub fn run_sub<F>(&self, sub: &str, plan: Plan, mut f: F)
    where
        F: FnMut(&mut Rng, &mut Case) -> Outcome,
    {
        let sub_seed = mix(self.seed, hash_str(&format!("{}/{}", self.prop, sub)));
        // a pass may leave out sub-checks by name prefix (e.g. stack-depth stress under an interpreter)
        if let Some(skip) = self.params.get("skip_subs") {
            if skip.split('+').any(|x| !x.is_empty() && sub.starts_with(x)) {
                return;
            }
        }
        // development aid: restrict a direct worker run to some sub-checks (never set by the driver)
        if let Ok(only) = std::env::var("VW_ONLY_SUB") {
            if !only.split(',').any(|x| x == sub) {
                return;
            }
        }
        // A sanitizer pass runs a pseudo-random subset (`scale_pct` percent) of every sub-check's cases,
        // recorded under its own name so that it never counts towards an exhaustive claim.
        let scale = self.param_u64("scale_pct", 100).min(100);
        let scaled_name = format!("{}@{}pct", sub, scale);
        let name_in = sub;
        let sub: &str = if scale < 100 { &scaled_name } else { sub };
        let plan = if scale < 100 { Plan { exhaustive: false, ..plan } } else { plan };
        // Replay of exactly one case
        if let Some((one_sub, one_idx)) = &self.one {
            if one_sub != sub && one_sub != name_in {
                return;
            }
            let (out, case_desc) = self.run_case(sub, sub_seed, *one_idx, &mut f);
            self.record(sub, *one_idx, out, case_desc);
            return;
        }
        // Resume after a crash: skip earlier sub-checks entirely
        let mut first_k = 0u64;
        if let Some((rsub, ridx)) = &self.resume {
            if !self.resumed.load(Ordering::Relaxed) {
                if rsub != sub {
                    return;
                }
                self.resumed.store(true, Ordering::Relaxed);
                first_k = (ridx - self.shard) / self.nshards + 1;
            }
        }
        let sub_start = Instant::now();
        let allowed_ms = (self.budget_ms as f64 * plan.time_share) as u64;
        let mut k = first_k;
        let mut complete = true;
        let mut done = 0u64;
        loop {
            let idx = k * self.nshards + self.shard;
            if idx >= plan.cases {
                break;
            }
            // under an interpreter a single case can take seconds: look at the clock before every case
            if (cfg!(miri) || done % 16 == 0) && sub_start.elapsed().as_millis() as u64 > allowed_ms {
                complete = false;
                break;
            }
            if scale < 100 && mix(sub_seed ^ 0x5ca1e, idx) % 100 >= scale {
                k += 1;
                continue;
            }
            let (out, case_desc) = self.run_case(sub, sub_seed, idx, &mut f);
            self.record(sub, idx, out, case_desc);
            done += 1;
            k += 1;
            self.maybe_flush();
        }
        let mut st = self.state.lock().unwrap();
        let e = st.subs.entry(sub.to_string()).or_default();
        e.planned = plan.cases;
        e.done += done;
        e.complete = complete && first_k == 0;
        e.exhaustive = plan.exhaustive;
        e.wall_ms += sub_start.elapsed().as_millis() as u64;
    }

    fn run_case<F>(
        &self,
        sub: &str,
        sub_seed: u64,
        idx: u64,
        f: &mut F,
    ) -> (Outcome, (String, Option<u64>))
    where
        F: FnMut(&mut Rng, &mut Case) -> Outcome,
    {
        let case_seed = mix(sub_seed, idx);
        let mut rng = Rng::new(case_seed);
        let mut case = Case {
            idx,
            seed: case_seed,
            desc: String::new(),
            hash: None,
            sub: sub.to_string(),
            ctx: self,
        };
        self.write_progress(idx, sub);
        let res = panic::catch_unwind(AssertUnwindSafe(|| f(&mut rng, &mut case)));
        let out = match res {
            Ok(o) => o,
            Err(payload) => {
                let msg = if let Some(s) = payload.downcast_ref::<&str>() {
                    s.to_string()
                } else if let Some(s) = payload.downcast_ref::<String>() {
                    s.clone()
                } else {
                    "non-string panic payload".to_string()
                };
                let loc = LAST_PANIC_LOC.with(|l| l.borrow().clone());
                if loc.contains("/verif/") || loc.contains("harness/src") {
                    // A panic inside the harness itself is a harness error, never a violation.
                    Outcome::Inconclusive(format!("harness-panic at {}: {}", loc, msg))
                } else {
                    Outcome::Violated {
                        sig: format!("panic:{}", short_loc(&loc)),
                        detail: format!("panic at {}: {}", loc, truncate(&msg, 600)),
                    }
                }
            }
        };
        let _ = sub;
        (out, (std::mem::take(&mut case.desc), case.hash))
    }

    fn record(&self, sub: &str, idx: u64, out: Outcome, case: (String, Option<u64>)) {
        let (desc, hash) = case;
        let mut st = self.state.lock().unwrap();
        st.evaluations += 1;
        match out {
            Outcome::Held => {
                st.nontrivial += 1;
                if let Some(h) = hash {
                    if st.distinct.len() < DISTINCT_CAP {
                        st.distinct.insert(mix(h, hash_str(sub)));
                    } else {
                        st.distinct_capped = true;
                    }
                }
                let v = st.samples.entry(sub.to_string()).or_default();
                if v.len() < 3 && !desc.is_empty() {
                    v.push(truncate(&desc, 1500));
                }
            }
            Outcome::Trivial => {
                *st.counters.entry(format!("{}.trivial", sub)).or_insert(0) += 1;
            }
            Outcome::Inconclusive(r) => {
                if self.one.is_some() {
                    eprintln!("INCONCLUSIVE: {}", r);
                }
                *st.inconclusive.entry(format!("{}: {}", sub, truncate(&r, 120))).or_insert(0) += 1;
            }
            Outcome::Violated { sig, detail } => {
                if st.violations.len() < MAX_VIOLATIONS {
                    st.violations.push(Violation {
                        sub: sub.to_string(),
                        idx,
                        sig,
                        detail,
                        desc: truncate(&desc, 20_000),
                    });
                } else {
                    *st.counters.entry("violations.dropped".into()).or_insert(0) += 1;
                }
            }
        }
    }

    fn maybe_flush(&self) {
        let due = {
            let st = self.state.lock().unwrap();
            st.last_flush.elapsed().as_millis() > 2000
        };
        if due {
            self.flush(false);
        }
    }

    /// Write the summary file (atomically) for the driver.
    pub fn flush(&self, finished: bool) {
        if self.one.is_some() {
            return;
        }
        let mut st = self.state.lock().unwrap();
        st.last_flush = Instant::now();
        let mut s = String::new();
        s.push('{');
        let _ = write!(
            s,
            "\"prop\":{},\"tier\":{},\"seed\":{},\"shard\":{},\"nshards\":{},\"finished\":{},\"wall_ms\":{},",
            jstr(&self.prop),
            jstr(self.tier.name()),
            self.seed,
            self.shard,
            self.nshards,
            finished,
            self.elapsed_ms()
        );
        let _ = write!(
            s,
            "\"evaluations\":{},\"nontrivial\":{},\"distinct_local\":{},\"distinct_capped\":{},",
            st.evaluations,
            st.nontrivial,
            st.distinct.len(),
            st.distinct_capped
        );
        s.push_str("\"counters\":{");
        let mut first = true;
        for (k, v) in &st.counters {
            if !first {
                s.push(',');
            }
            first = false;
            let _ = write!(s, "{}:{}", jstr(k), v);
        }
        s.push_str("},\"maxes\":{");
        first = true;
        for (k, v) in &st.maxes {
            if !first {
                s.push(',');
            }
            first = false;
            let _ = write!(s, "{}:{}", jstr(k), v);
        }
        s.push_str("},\"inconclusive\":{");
        first = true;
        for (k, v) in &st.inconclusive {
            if !first {
                s.push(',');
            }
            first = false;
            let _ = write!(s, "{}:{}", jstr(k), v);
        }
        s.push_str("},\"subs\":{");
        first = true;
        for (k, v) in &st.subs {
            if !first {
                s.push(',');
            }
            first = false;
            let _ = write!(
                s,
                "{}:{{\"planned\":{},\"done\":{},\"complete\":{},\"exhaustive\":{},\"wall_ms\":{}}}",
                jstr(k),
                v.planned,
                v.done,
                v.complete,
                v.exhaustive,
                v.wall_ms
            );
        }
        s.push_str("},\"samples\":{");
        first = true;
        for (k, v) in &st.samples {
            if !first {
                s.push(',');
            }
            first = false;
            let _ = write!(s, "{}:[", jstr(k));
            for (i, x) in v.iter().enumerate() {
                if i > 0 {
                    s.push(',');
                }
                s.push_str(&jstr(x));
            }
            s.push(']');
        }
        s.push_str("},\"notes\":[");
        for (i, x) in st.notes.iter().enumerate() {
            if i > 0 {
                s.push(',');
            }
            s.push_str(&jstr(x));
        }
        s.push_str("],\"violations\":[");
        for (i, v) in st.violations.iter().enumerate() {
            if i > 0 {
                s.push(',');
            }
            let _ = write!(
                s,
                "{{\"sub\":{},\"idx\":{},\"sig\":{},\"detail\":{},\"desc\":{}}}",
                jstr(&v.sub),
                v.idx,
                jstr(&v.sig),
                jstr(&v.detail),
                jstr(&v.desc)
            );
        }
        s.push_str("]}");
        let tmp = self.out_dir.join(format!("w{}.json.tmp", self.shard));
        let dst = self.out_dir.join(format!("w{}.json", self.shard));
        if let Ok(mut f) = File::create(&tmp) {
            let _ = f.write_all(s.as_bytes());
            let _ = fs::rename(&tmp, &dst);
        }
        if finished {
            // distinct hashes, for the driver to union across shards
            let mut buf = Vec::with_capacity(st.distinct.len() * 8);
            for h in &st.distinct {
                buf.extend_from_slice(&h.to_le_bytes());
            }
            let _ = fs::write(self.out_dir.join(format!("w{}.hashes", self.shard)), buf);
        }
    }

    /// Replay mode: print the verdict of the single case and return the exit code.
    pub fn finish_one(&self) -> i32 {
        let st = self.state.lock().unwrap();
        if let Some(v) = st.violations.first() {
            println!("REPLAY-VIOLATED sub={} idx={} sig={}", v.sub, v.idx, v.sig);
            println!("detail: {}", v.detail);
            println!("case: {}", v.desc);
            1
        } else if let Some((k, _)) = st.inconclusive.iter().next() {
            println!("REPLAY-INCONCLUSIVE {}", k);
            3
        } else if st.evaluations == 0 {
            println!("REPLAY-NOTFOUND (no sub-check of that name)");
            2
        } else {
            println!("REPLAY-HELD");
            for v in st.samples.values() {
                for s in v {
                    println!("case: {}", s);
                }
            }
            0
        }
    }
}

thread_local! {
    static LAST_PANIC_LOC: std::cell::RefCell<String> = const { std::cell::RefCell::new(String::new()) };
}

/// Install a panic hook that remembers the location (and stays quiet).
pub fn install_panic_hook() {
    panic::set_hook(Box::new(|info| {
        let loc = info
            .location()
            .map(|l| format!("{}:{}", l.file(), l.line()))
            .unwrap_or_else(|| "?".into());
        LAST_PANIC_LOC.with(|l| *l.borrow_mut() = loc);
    }));
}

pub fn last_panic_loc() -> String {
    LAST_PANIC_LOC.with(|l| l.borrow().clone())
}

fn short_loc(loc: &str) -> String {
    // keep "src/…/file.rs:line" relative to the repository
    if let Some(p) = loc.find("/repo/") {
        loc[p + 6..].to_string()
    } else {
        loc.to_string()
    }
}

pub fn truncate(s: &str, n: usize) -> String {
    if s.len() <= n {
        s.to_string()
    } else {
        let mut end = n;
        while !s.is_char_boundary(end) {
            end -= 1;
        }
        format!("{}…[{} bytes]", &s[..end], s.len())
    }
}

pub fn jstr(s: &str) -> String {
    let mut o = String::with_capacity(s.len() + 2);
    o.push('"');
    for c in s.chars() {
        match c {
            '"' => o.push_str("\\\""),
            '\\' => o.push_str("\\\\"),
            '\n' => o.push_str("\\n"),
            '\r' => o.push_str("\\r"),
            '\t' => o.push_str("\\t"),
            c if (c as u32) < 0x20 => {
                let _ = write!(o, "\\u{:04x}", c as u32);
            }
            c => o.push(c),
        }
    }
    o.push('"');
    o
}

pub fn hex(b: &[u8]) -> String {
    let mut s = String::with_capacity(b.len() * 2);
    for x in b {
        let _ = write!(s, "{:02x}", x);
    }
    s
}

pub fn unhex(s: &str) -> Vec<u8> {
    let s = s.trim();
    (0..s.len() / 2)
        .map(|i| u8::from_str_radix(&s[2 * i..2 * i + 2], 16).expect("hex"))
        .collect()
}

/// Call `f`, capturing a panic as `Err(location: message)`.
pub fn guard<T>(f: impl FnOnce() -> T) -> Result<T, String> {
    match panic::catch_unwind(AssertUnwindSafe(f)) {
        Ok(v) => Ok(v),
        Err(payload) => {
            let msg = if let Some(s) = payload.downcast_ref::<&str>() {
                s.to_string()
            } else if let Some(s) = payload.downcast_ref::<String>() {
                s.clone()
            } else {
                "non-string panic payload".to_string()
            };
            Err(format!("{}: {}", short_loc(&last_panic_loc()), truncate(&msg, 300)))
        }
    }
}

/// Shared handle type used by multi-threaded checks.
pub type Shared<T> = Arc<Mutex<T>>;
