//! C10 — value encodings, accessors and pruning follow the type's bit layout.
//! Oracle: the abstract value model in crate::val (layout computed from the type definition).

use crate::bits;
use crate::rng::{hash_str, Rng};
use crate::runner::{guard, violated, Case, Ctx, Outcome, Plan};
use crate::ty::{self, Kind, ToFinal, TyParams, T};
use crate::val::{self, V};
use simplicity::{BitIter, Value};

macro_rules! bail {
    ($sig:expr, $($arg:tt)*) => { return Err(($sig.to_string(), format!($($arg)*))) };
}

type R = Result<(), (String, String)>;

/// Everything that must hold of a library value `lv` known to denote (v : t).
pub fn check_value(lv: &Value, v: &V, t: &T, hist: &str, rng: &mut Rng) -> R {
    if let Err(e) = val::denotes(lv, v, t) {
        bail!(format!("layout:{}", hist), "value {} : {} produced via `{}`: {}", val::show(v), t, hist, e);
    }
    let want_c = val::compact_vec(v, t);
    if lv.padded_len() != t.width {
        bail!("padded-len", "padded_len() = {} for type {} of width {}", lv.padded_len(), t, t.width);
    }
    if lv.compact_len() != want_c.len() {
        bail!("compact-len", "compact_len() = {} ; compact encoding has {} bits ({} : {})", lv.compact_len(), want_c.len(), val::show(v), t);
    }
    if lv.is_empty() != (t.width == 0) || lv.is_unit() != t.is_unit() {
        bail!("is-empty/unit", "is_empty {} is_unit {} for type {}", lv.is_empty(), lv.is_unit(), t);
    }
    let f = ty::to_final(t);
    if !lv.is_of_type(&f) {
        bail!("is-of-type", "is_of_type(own type {}) is false", t);
    }
    // re-decode both of the library's own encodings
    {
        let cbits: bits::Bits = lv.iter_compact().collect();
        let mut padded_then_junk = cbits.clone();
        padded_then_junk.extend([true, false, true]);
        let bytes = bits::bytes_of_bits(&padded_then_junk);
        let mut it = BitIter::from(&bytes[..]);
        match Value::from_compact_bits(&mut it, &f) {
            Ok(d) => {
                if it.n_total_read() != cbits.len() {
                    bail!("compact-redecode-consumed", "from_compact_bits(iter_compact) consumed {} of {} bits ({} : {})", it.n_total_read(), cbits.len(), val::show(v), t);
                }
                if let Err(e) = val::denotes(&d, v, t) {
                    bail!("compact-redecode", "from_compact_bits(iter_compact(x)) differs from x = {} : {} [{}]: {}", val::show(v), t, hist, e);
                }
            }
            Err(e) => bail!("compact-redecode", "from_compact_bits(iter_compact(x)) failed: {:?}", e),
        }
        let pbits: bits::Bits = lv.iter_padded().collect();
        let mut pj = pbits.clone();
        pj.extend([true, true, false]);
        let bytes = bits::bytes_of_bits(&pj);
        let mut it = BitIter::from(&bytes[..]);
        match Value::from_padded_bits(&mut it, &f) {
            Ok(d) => {
                if it.n_total_read() != pbits.len() {
                    bail!("padded-redecode-consumed", "from_padded_bits(iter_padded) consumed {} of {} bits", it.n_total_read(), pbits.len());
                }
                if let Err(e) = val::denotes(&d, v, t) {
                    bail!("padded-redecode", "from_padded_bits(iter_padded(x)) differs from x = {} : {} [{}]: {}", val::show(v), t, hist, e);
                }
            }
            Err(e) => bail!("padded-redecode", "from_padded_bits(iter_padded(x)) failed: {:?}", e),
        }
    }
    // accessors
    match (v, &t.kind) {
        (V::Unit, Kind::Unit) => {
            if lv.as_left().is_some() || lv.as_right().is_some() || lv.as_product().is_some() {
                bail!("accessor-unit", "unit value answers an accessor with Some");
            }
        }
        (V::L(x), Kind::Sum(a, _)) => {
            if lv.as_right().is_some() || lv.as_product().is_some() {
                bail!("accessor-left", "left value {} : {} answers as_right/as_product with Some", val::show(v), t);
            }
            match lv.as_left() {
                Some(s) => {
                    if let Err(e) = val::denotes(&s.to_value(), x, a) {
                        bail!(format!("accessor-left:{}", hist), "as_left of {} : {} [{}]: {}", val::show(v), t, hist, e);
                    }
                }
                None => bail!("accessor-left", "as_left of the left value {} : {} is None", val::show(v), t),
            }
        }
        (V::R(x), Kind::Sum(_, b)) => {
            if lv.as_left().is_some() || lv.as_product().is_some() {
                bail!("accessor-right", "right value {} : {} answers as_left/as_product with Some", val::show(v), t);
            }
            match lv.as_right() {
                Some(s) => {
                    if let Err(e) = val::denotes(&s.to_value(), x, b) {
                        bail!(format!("accessor-right:{}", hist), "as_right of {} : {} [{}]: {}", val::show(v), t, hist, e);
                    }
                }
                None => bail!("accessor-right", "as_right of the right value {} : {} is None", val::show(v), t),
            }
        }
        (V::P(x, y), Kind::Prod(a, b)) => {
            if t.width > 0 && (lv.as_left().is_some() || lv.as_right().is_some()) {
                bail!("accessor-product", "product value {} : {} answers as_left/as_right with Some", val::show(v), t);
            }
            match lv.as_product() {
                Some((s1, s2)) => {
                    if let Err(e) = val::denotes(&s1.to_value(), x, a) {
                        bail!(format!("accessor-product:{}", hist), "as_product.0 of {} : {} [{}]: {}", val::show(v), t, hist, e);
                    }
                    if let Err(e) = val::denotes(&s2.to_value(), y, b) {
                        bail!(format!("accessor-product:{}", hist), "as_product.1 of {} : {} [{}]: {}", val::show(v), t, hist, e);
                    }
                }
                None => bail!("accessor-product", "as_product of the product value {} : {} is None", val::show(v), t),
            }
        }
        _ => unreachable!(),
    }
    // to_word
    match (lv.to_word(), t.as_word()) {
        (Some(w), Some(n)) => {
            if w.n() != n || w.len() != (1usize << n) || w.iter().collect::<Vec<bool>>() != want_c {
                bail!("to-word", "to_word of {} : {} gives n={} bits {}", val::show(v), t, w.n(), bits::bits_str(&w.iter().collect::<Vec<bool>>()));
            }
        }
        (None, None) => {}
        (a, b) => bail!("to-word", "to_word is_some={} but harness word exponent {:?} for type {}", a.is_some(), b, t),
    }
    // re-wrapping: constructors applied to a value obtained this way, then accessed again
    let mut tf = ToFinal::new();
    let other_p = TyParams { max_width: 20, max_depth: 3, max_word_n: 3 };
    let other = ty::gen_ty(rng, &other_p);
    let ov = val::gen_val(rng, &other);
    let checks: [(u8, V, T, Value); 4] = [
        (0, V::L(Box::new(v.clone())), ty::sum(t.clone(), other.clone()), Value::left(lv.shallow_clone(), tf.conv(&other))),
        (1, V::R(Box::new(v.clone())), ty::sum(other.clone(), t.clone()), Value::right(tf.conv(&other), lv.shallow_clone())),
        (2, V::P(Box::new(v.clone()), Box::new(ov.clone())), ty::prod(t.clone(), other.clone()), Value::product(lv.shallow_clone(), val::build_ctor(&ov, &other, &mut tf))),
        (3, V::P(Box::new(ov.clone()), Box::new(v.clone())), ty::prod(other.clone(), t.clone()), Value::product(val::build_ctor(&ov, &other, &mut tf), lv.shallow_clone())),
    ];
    for (k, wv, wt, wl) in checks.iter() {
        if let Err(e) = val::denotes(wl, wv, wt) {
            bail!(format!("rewrap:{}:{}", ["left", "right", "product-fst", "product-snd"][*k as usize], hist),
                "wrapping x = {} : {} [{}] with {} gives a value that is not {} : {} — {}",
                val::show(v), t, hist, ["left(x, B)", "right(A, x)", "product(x, y)", "product(y, x)"][*k as usize], val::show(wv), wt, e);
        }
        let part = match k {
            0 => wl.as_left().map(|r| r.to_value()),
            1 => wl.as_right().map(|r| r.to_value()),
            2 => wl.as_product().map(|r| r.0.to_value()),
            _ => wl.as_product().map(|r| r.1.to_value()),
        };
        match part {
            Some(p) => {
                if let Err(e) = val::denotes(&p, v, t) {
                    bail!(format!("ctor-accessor-inverse:{}", hist), "accessor after constructor {} does not give back x = {} : {} [{}]: {}", k, val::show(v), t, hist, e);
                }
            }
            None => bail!("ctor-accessor-inverse", "accessor after constructor {} gives None", k),
        }
    }
    Ok(())
}

fn incompatible_target(rng: &mut Rng, t: &T, v: &V) -> Option<T> {
    // a target that is incompatible *along the path the value takes*
    match (&t.kind, v) {
        (Kind::Unit, _) => Some(match rng.below(2) {
            0 => ty::bit(),
            _ => ty::prod(ty::unit(), ty::unit()),
        }),
        (Kind::Sum(a, b), V::L(x)) => match rng.below(3) {
            0 => Some(ty::prod(a.clone(), b.clone())),
            1 => incompatible_target(rng, a, x).map(|na| ty::sum(na, b.clone())),
            _ => Some(ty::prod(ty::unit(), ty::unit())),
        },
        (Kind::Sum(a, b), V::R(x)) => match rng.below(3) {
            0 => Some(ty::prod(a.clone(), b.clone())),
            1 => incompatible_target(rng, b, x).map(|nb| ty::sum(a.clone(), nb)),
            _ => Some(ty::prod(ty::unit(), ty::unit())),
        },
        (Kind::Prod(a, b), V::P(x, y)) => match rng.below(4) {
            0 => Some(ty::sum(a.clone(), b.clone())),
            1 => incompatible_target(rng, a, x).map(|na| ty::prod(na, b.clone())),
            2 => incompatible_target(rng, b, y).map(|nb| ty::prod(a.clone(), nb)),
            _ => Some(ty::bit()),
        },
        _ => None,
    }
}

fn check_prune(lv: &Value, v: &V, t: &T, hist: &str, rng: &mut Rng, case: &Case) -> R {
    // equal
    let f = ty::to_final(t);
    match lv.prune(&f) {
        Some(p) => {
            if let Err(e) = val::denotes(&p, v, t) {
                bail!("prune-equal", "prune to own type changed {} : {} [{}]: {}", val::show(v), t, hist, e);
            }
        }
        None => bail!("prune-equal", "prune to own type {} gives None", t),
    }
    // smaller, one and two steps
    for _ in 0..3 {
        let pu = rng.range(5, 45);
        let t1 = val::shrink_ty(rng, t, pu);
        let want1 = val::prune_model(v, t, &t1).expect("harness: shrink_ty gives a smaller type");
        let f1 = ty::to_final(&t1);
        let p1 = match lv.prune(&f1) {
            Some(p) => p,
            None => bail!(format!("prune-smaller-none:{}", hist), "prune({} : {} [{}], {}) = None, target is smaller", val::show(v), t, hist, t1),
        };
        if let Err(e) = val::denotes(&p1, &want1, &t1) {
            bail!(format!("prune-smaller:{}", hist), "prune({} : {} [{}], {}) is not {}: {}", val::show(v), t, hist, t1, val::show(&want1), e);
        }
        case.count("prune.smaller");
        let t2 = val::shrink_ty(rng, &t1, pu);
        let want2 = val::prune_model(v, t, &t2).expect("harness: shrink of shrink");
        let f2 = ty::to_final(&t2);
        let direct = lv.prune(&f2);
        let two = p1.prune(&f2);
        match (direct, two) {
            (Some(d), Some(w)) => {
                if let Err(e) = val::denotes(&d, &want2, &t2) {
                    bail!("prune-direct", "prune({} : {}, {}): {}", val::show(v), t, t2, e);
                }
                if let Err(e) = val::denotes(&w, &want2, &t2) {
                    bail!("prune-two-step", "prune(prune(x, {}), {}) differs from prune(x, {}) for x = {} : {}: {}", t1, t2, t2, val::show(v), t, e);
                }
            }
            (d, w) => bail!("prune-two-step", "prune to {} directly is_some={} via {} is_some={}", t2, d.is_some(), t1, w.is_some()),
        }
        case.count("prune.two-step");
    }
    // incompatible along the path
    for _ in 0..2 {
        if let Some(bad) = incompatible_target(rng, t, v) {
            if val::prune_model(v, t, &bad).is_some() {
                continue; // the random rewrite happened to stay compatible
            }
            let fb = ty::to_final(&bad);
            if let Some(p) = lv.prune(&fb) {
                bail!(format!("prune-incompatible:{}", hist), "prune({} : {}, {}) returned {:?}; the target is not a pruning of the type", val::show(v), t, bad, p);
            }
            case.count("prune.incompatible");
        }
    }
    // larger target (grow): path-compatible but not smaller: either None or a well-formed value
    {
        let mut budget = 30;
        let (_, bigger) = val::grow(rng, v, t, &mut budget);
        if bigger != *t {
            let fb = ty::to_final(&bigger);
            match (lv.prune(&fb), val::prune_model(v, t, &bigger)) {
                (None, _) => case.count("prune.larger.none"),
                (Some(p), Some(want)) => {
                    if let Err(e) = val::denotes(&p, &want, &bigger) {
                        bail!("prune-larger-malformed", "prune({} : {}, larger {}) returned a malformed value: {}", val::show(v), t, bigger, e);
                    }
                    case.count("prune.larger.some");
                }
                (Some(p), None) => {
                    // must at least be a well-formed value of the target type
                    let lt = ty::from_final(p.ty());
                    let c: bits::Bits = p.iter_compact().collect();
                    let ok = lt == bigger && val::decode_compact(&c, &bigger).map(|(_, n)| n == c.len()).unwrap_or(false) && p.padded_len() == bigger.width;
                    if !ok {
                        bail!("prune-larger-malformed", "prune({} : {}, larger {}) returned a malformed value {:?}", val::show(v), t, bigger, p);
                    }
                    case.count("prune.larger.some");
                }
            }
        }
    }
    Ok(())
}

fn one_case(rng: &mut Rng, case: &mut Case, params: &TyParams) -> Outcome {
    let t = ty::gen_ty(rng, params);
    let v = match rng.below(8) {
        0 => val::zero_val(&t),
        1 => val::ones_val(&t),
        _ => val::gen_val(rng, &t),
    };
    let h = rng.usize_below(val::HISTORIES.len());
    let hist = val::HISTORIES[h];
    case.desc = format!("{} : {} via {}", val::show(&v), t, hist);
    case.hash = Some(hash_str(&case.desc));
    let lv = match guard(|| val::realise(h, &v, &t, &mut rng.clone())) {
        Ok(Ok(lv)) => lv,
        Ok(Err(e)) => return violated(format!("history-failed:{}", hist), format!("{} : {} via {}: {}", val::show(&v), t, hist, e)),
        Err(p) => return violated(format!("panic:{}", hist), format!("building {} : {} via {} panicked: {}", val::show(&v), t, hist, p)),
    };
    case.count(&format!("history.{}", hist));
    if t.has_padding {
        case.count("type.has_padding");
    }
    if let Err((sig, d)) = check_value(&lv, &v, &t, hist, rng) {
        return violated(sig, d);
    }
    if let Err((sig, d)) = check_prune(&lv, &v, &t, hist, rng, case) {
        return violated(sig, d);
    }
    // Display / Debug must terminate without panicking (small values only: output is linear in width)
    if t.width <= 256 {
        let s = format!("{}", lv);
        if s.is_empty() {
            return violated("display-empty", format!("Display of {} : {} is empty", val::show(&v), t));
        }
    }
    if t.width == 0 {
        Outcome::Trivial
    } else {
        Outcome::Held
    }
}

/// Sub-values at every bit offset 0..8 (enumerated): pair(k-bit prefix, x).1 and sum payloads.
fn offsets_case(rng: &mut Rng, case: &mut Case) -> Outcome {
    let p = TyParams { max_width: 64, max_depth: 4, max_word_n: 4 };
    let t = ty::gen_ty(rng, &p);
    if t.width == 0 {
        return Outcome::Trivial;
    }
    let v = val::gen_val(rng, &t);
    case.desc = format!("{} : {} behind prefixes of 0..=8 bits", val::show(&v), t);
    case.hash = Some(hash_str(&case.desc));
    for k in 0..=8usize {
        let mut pt = ty::unit();
        for _ in 0..k {
            pt = ty::prod(pt, ty::bit());
        }
        let pv = val::gen_val(rng, &pt);
        for mode in 0..3u8 {
            let ctx = vec![val::Step::Snd(pv.clone(), pt.clone())];
            let (wv, wt) = val::plug(&ctx, &v, &t);
            let mut tf = ToFinal::new();
            let whole = match mode {
                0 => Ok(val::build_ctor(&wv, &wt, &mut tf)),
                1 => val::build_from_padded(&wv, &wt, &mut tf, rng, 1),
                _ => val::build_from_compact(&wv, &wt, &mut tf, rng),
            };
            let whole = match whole {
                Ok(w) => w,
                Err(e) => return violated("history-failed:offset", e),
            };
            let sub = match val::extract(&whole, &ctx) {
                Ok(s) => s,
                Err(e) => return violated("accessor-offset", e),
            };
            if let Err((sig, d)) = check_value(&sub, &v, &t, &format!("offset{}", k), rng) {
                return violated(sig, format!("(bit offset {} mod 8, mode {}) {}", k % 8, mode, d));
            }
            if let Err((sig, d)) = check_prune(&sub, &v, &t, &format!("offset{}", k), rng, case) {
                return violated(sig, format!("(bit offset {} mod 8, mode {}) {}", k % 8, mode, d));
            }
            case.count(&format!("offset.{}", k % 8));
        }
    }
    Outcome::Held
}

fn model_buffer(n: usize, data: &[u8]) -> V {
    // value of buffer8(n) holding `data` (len < 2^(n+1)): for k = n down to 0: Some(chunk of 2^k bytes) if bit k of len set
    fn bytes_val(bytes: &[u8]) -> V {
        // word(3 + log2(len)) as a balanced product of bits
        fn go(bits: &[bool]) -> V {
            if bits.len() == 1 {
                if bits[0] { V::R(Box::new(V::Unit)) } else { V::L(Box::new(V::Unit)) }
            } else {
                let (a, b) = bits.split_at(bits.len() / 2);
                V::P(Box::new(go(a)), Box::new(go(b)))
            }
        }
        go(&bits::bits_of_bytes(bytes))
    }
    let mut rest = data;
    let mut parts = Vec::new();
    for k in (0..=n).rev() {
        let sz = 1usize << k;
        if data.len() & sz != 0 {
            let (a, b) = rest.split_at(sz);
            parts.push(V::R(Box::new(bytes_val(a))));
            rest = b;
        } else {
            parts.push(V::L(Box::new(V::Unit)));
        }
    }
    // buffer8(n) = prod(option(word(3+n)), buffer8(n-1)) ... innermost option(word(3))
    let mut it = parts.into_iter().rev();
    let mut acc = it.next().unwrap();
    for p in it {
        acc = V::P(Box::new(p), Box::new(acc));
    }
    acc
}

fn buffer_case(rng: &mut Rng, case: &mut Case) -> Outcome {
    let n = rng.usize_below(7);
    let cap = (2usize << n) - 1;
    let len = match rng.below(5) {
        0 => cap,
        1 => cap + 1 + rng.usize_below(3),
        2 => 0,
        _ => rng.usize_below(cap + 1),
    };
    let data = rng.bytes(len);
    case.desc = format!("buffer8_two_n_plus_one({}, {} bytes {})", n, len, bits::fmt_bytes(&data));
    case.hash = Some(hash_str(&case.desc));
    let r = Value::buffer8_two_n_plus_one(n, &data);
    let t = ty::buffer8(n);
    match r {
        Ok(lv) => {
            if len > cap {
                return violated("buffer8-too-long-accepted", format!("{} accepted although capacity is {}", case.desc, cap));
            }
            let v = model_buffer(n, &data);
            if let Err(e) = val::denotes(&lv, &v, &t) {
                return violated("buffer8-layout", format!("{}: {}", case.desc, e));
            }
            // and the library's own type constructor agrees with the definition
            let lf = simplicity::types::Final::buffer8_two_n_plus_one(n).unwrap();
            if ty::from_final(&lf) != t {
                return violated("buffer8-type", format!("Final::buffer8_two_n_plus_one({}) is {}", n, ty::from_final(&lf)));
            }
            if let Err((sig, d)) = check_prune(&lv, &v, &t, "buffer8", rng, case) {
                return violated(sig, d);
            }
        }
        Err(_) => {
            if len <= cap {
                return violated("buffer8-rejected", format!("{} rejected although capacity is {}", case.desc, cap));
            }
        }
    }
    // ctx8
    let mid: [u8; 32] = rng.bytes(32).try_into().unwrap();
    let count = rng.next_u64();
    let blen = if rng.chance(1, 6) { 64 + rng.usize_below(3) } else { rng.usize_below(64) };
    let buf = rng.bytes(blen);
    match Value::ctx8(mid, count, &buf) {
        Ok(lv) => {
            if blen > 63 {
                return violated("ctx8-too-long-accepted", format!("ctx8 with {}-byte buffer accepted", blen));
            }
            let t = ty::ctx8();
            let word_v = |b: &[u8]| {
                let (v, _) = val::decode_compact(&bits::bits_of_bytes(b), &ty::word(3 + b.len().trailing_zeros() as usize)).unwrap();
                v
            };
            let v = V::P(
                Box::new(model_buffer(5, &buf)),
                Box::new(V::P(Box::new(word_v(&count.to_be_bytes())), Box::new(word_v(&mid)))),
            );
            if let Err(e) = val::denotes(&lv, &v, &t) {
                return violated("ctx8-layout", format!("ctx8({}, {}, {}): {}", bits::fmt_bytes(&mid), count, bits::fmt_bytes(&buf), e));
            }
            if ty::from_final(&simplicity::types::Final::ctx8()) != t {
                return violated("ctx8-type", "Final::ctx8() is not (2^8)^<64 * (2^64 * 2^256)".to_string());
            }
        }
        Err(_) => {
            if blen <= 63 {
                return violated("ctx8-rejected", format!("ctx8 with {}-byte buffer rejected", blen));
            }
        }
    }
    Outcome::Held
}

fn zero_case(rng: &mut Rng, case: &mut Case) -> Outcome {
    let t = ty::gen_ty(rng, &TyParams::medium());
    case.desc = format!("zero({})", t);
    case.hash = Some(hash_str(&case.desc));
    let f = ty::to_final(&t);
    // the library's own width/padding bookkeeping against the definition
    if f.bit_width() != t.width || f.has_padding() != t.has_padding {
        return violated("final-width", format!("Final {} has bit_width {} has_padding {}; definition gives {} / {}", t, f.bit_width(), f.has_padding(), t.width, t.has_padding));
    }
    if let Some((a, b)) = t.as_sum() {
        let (fa, fb) = f.as_sum().unwrap();
        if fa.pad_left(fb) != t.pad_l() || fa.pad_right(fb) != t.pad_r() {
            return violated("final-padding", format!("pad_left/pad_right of {} + {} are {}/{}; definition gives {}/{}", a, b, fa.pad_left(fb), fa.pad_right(fb), t.pad_l(), t.pad_r()));
        }
    }
    let z = Value::zero(&f);
    let zv = val::zero_val(&t);
    if let Err((sig, d)) = check_value(&z, &zv, &t, "zero", rng) {
        return violated(sig, d);
    }
    if t.width == 0 { Outcome::Trivial } else { Outcome::Held }
}

pub fn run(ctx: &Ctx) {
    let t = ctx.tier;
    ctx.run_sub("values-small", Plan::sample(t.pick(400_000, 4_000_000), 0.3), |rng, case| one_case(rng, case, &TyParams::small()));
    ctx.run_sub("values-medium", Plan::sample(t.pick(80_000, 1_000_000), 0.25), |rng, case| one_case(rng, case, &TyParams::medium()));
    ctx.run_sub("values-large", Plan::sample(t.pick(600, 40_000), 0.1), |rng, case| one_case(rng, case, &TyParams::large()));
    ctx.run_sub("offsets-enumerated", Plan::sample(t.pick(4_000, 200_000), 0.15), offsets_case);
    ctx.run_sub("buffer-ctx8", Plan::sample(t.pick(8_000, 400_000), 0.1), buffer_case);
    ctx.run_sub("zero-and-widths", Plan::sample(t.pick(10_000, 500_000), 0.1), zero_case);
    // every type with at most 4 constructors, every value of it, every history (small finite space)
    let tys = ty::all_types_up_to(t.pick(3, 4));
    ctx.run_sub("tiny-types-exhaustive", Plan::enumerate(tys.len() as u64, 0.1), |rng, case| {
        let ty_ = &tys[case.idx as usize];
        let vals = all_values(ty_);
        for v in &vals {
            for h in 0..val::HISTORIES.len() {
                let lv = match guard(|| val::realise(h, v, ty_, &mut rng.clone())) {
                    Ok(Ok(lv)) => lv,
                    Ok(Err(e)) => return violated(format!("history-failed:{}", val::HISTORIES[h]), e),
                    Err(p) => return violated(format!("panic:{}", val::HISTORIES[h]), p),
                };
                if let Err((sig, d)) = check_value(&lv, v, ty_, val::HISTORIES[h], rng) {
                    return violated(sig, d);
                }
                if let Err((sig, d)) = check_prune(&lv, v, ty_, val::HISTORIES[h], rng, case) {
                    return violated(sig, d);
                }
            }
        }
        case.add("tiny.values", vals.len() as u64);
        case.desc = format!("type {} : all {} values x {} histories", ty_, vals.len(), val::HISTORIES.len());
        case.hash = Some(ty_.ident());
        Outcome::Held
    });
}

pub fn all_values(t: &T) -> Vec<V> {
    match &t.kind {
        Kind::Unit => vec![V::Unit],
        Kind::Sum(a, b) => {
            let mut v: Vec<V> = all_values(a).into_iter().map(|x| V::L(Box::new(x))).collect();
            v.extend(all_values(b).into_iter().map(|x| V::R(Box::new(x))));
            v
        }
        Kind::Prod(a, b) => {
            let va = all_values(a);
            let vb = all_values(b);
            let mut v = Vec::new();
            for x in &va {
                for y in &vb {
                    v.push(V::P(Box::new(x.clone()), Box::new(y.clone())));
                }
            }
            v
        }
    }
}
