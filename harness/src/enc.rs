//! M-bits for programs: reference bit-level encoder ("hand-assembler") and parser of the program
//! encoding, working on explicit node lists. Jet codes are obtained from / recognised by the jet
//! tables (their correctness is C14's subject); everything else is written from the specification.

use crate::ast::{Dag, JetRef, Op};
use crate::bits::{self, Bits, NatDecode};
use crate::gen::Family;
use simplicity::jet::{Core, Elements, Jet};
use simplicity::{BitIter, BitWriter};

/// A node of an explicit encoding list. Children are absolute indices into the list.
#[derive(Clone, Debug, PartialEq, Eq)]
pub enum ENode {
    Op(Op),
    Hidden([u8; 32]),
}

pub fn jet_code(j: &JetRef) -> Bits {
    let mut sink = Vec::new();
    let n = {
        let mut w = BitWriter::new(&mut sink as &mut dyn std::io::Write);
        let n = j.as_dyn().encode(&mut w).expect("vec");
        w.flush_all().expect("vec");
        n
    };
    bits::bits_of_bytes(&sink)[..n].to_vec()
}

fn push_bytes(out: &mut Bits, b: &[u8]) {
    out.extend(bits::bits_of_bytes(b));
}

/// Encode one node at list position `i`. `case`-family nodes whose hidden side is a list entry use
/// `Op::Case` with the index of the `Hidden` entry.
pub fn encode_node(node: &ENode, i: usize, out: &mut Bits) {
    let rel = |out: &mut Bits, c: usize| bits::encode_natural((i - c) as u64, out);
    match node {
        ENode::Hidden(h) => {
            out.extend([false, true, true, false]);
            push_bytes(out, h);
        }
        ENode::Op(op) => match op {
            Op::Comp(a, b) => {
                out.extend([false, false, false, false, false]);
                rel(out, *a);
                rel(out, *b);
            }
            Op::Case(a, b) => {
                out.extend([false, false, false, false, true]);
                rel(out, *a);
                rel(out, *b);
            }
            Op::Pair(a, b) => {
                out.extend([false, false, false, true, false]);
                rel(out, *a);
                rel(out, *b);
            }
            Op::Disconnect(a, Some(b)) => {
                out.extend([false, false, false, true, true]);
                rel(out, *a);
                rel(out, *b);
            }
            Op::InjL(a) => {
                out.extend([false, false, true, false, false]);
                rel(out, *a);
            }
            Op::InjR(a) => {
                out.extend([false, false, true, false, true]);
                rel(out, *a);
            }
            Op::Take(a) => {
                out.extend([false, false, true, true, false]);
                rel(out, *a);
            }
            Op::Drop(a) => {
                out.extend([false, false, true, true, true]);
                rel(out, *a);
            }
            Op::Iden => out.extend([false, true, false, false, false]),
            Op::Unit => out.extend([false, true, false, false, true]),
            Op::Fail(e) => {
                out.extend([false, true, false, true, false]);
                push_bytes(out, e);
            }
            Op::Disconnect(a, None) => {
                out.extend([false, true, false, true, true]);
                rel(out, *a);
            }
            Op::Witness(_) => out.extend([false, true, true, true]),
            Op::Jet(j) => {
                out.extend([true, true]);
                out.extend(jet_code(j));
            }
            Op::Word(n, packed) => {
                out.extend([true, false]);
                bits::encode_natural(1 + u64::from(*n), out);
                out.extend_from_slice(&bits::bits_of_bytes(packed)[..1usize << n]);
            }
            Op::AssertL(..) | Op::AssertR(..) => panic!("harness: assertions are encoded as case + hidden list entries"),
        },
    }
}

pub fn encode_list(list: &[ENode]) -> Bits {
    let mut out = Vec::new();
    bits::encode_natural(list.len() as u64, &mut out);
    for (i, n) in list.iter().enumerate() {
        encode_node(n, i, &mut out);
    }
    out
}

/// Straightforward (unshared beyond the AST's own sharing) listing of a DAG: one entry per AST node in
/// index order, plus one `Hidden` entry per assertion. NOT canonical in general; used by the hand-assemblers.
pub fn list_of_dag(dag: &Dag) -> Vec<ENode> {
    let mut list: Vec<ENode> = Vec::new();
    let mut pos = vec![0usize; dag.len()];
    let mut hidden_pos: std::collections::HashMap<[u8; 32], usize> = std::collections::HashMap::new();
    for (i, op) in dag.nodes.iter().enumerate() {
        let m = |c: &usize| pos[*c];
        let e = match op {
            Op::AssertL(a, h) => {
                let hp = *hidden_pos.entry(*h).or_insert_with(|| {
                    list.push(ENode::Hidden(*h));
                    list.len() - 1
                });
                ENode::Op(Op::Case(m(a), hp))
            }
            Op::AssertR(h, b) => {
                let hp = *hidden_pos.entry(*h).or_insert_with(|| {
                    list.push(ENode::Hidden(*h));
                    list.len() - 1
                });
                ENode::Op(Op::Case(hp, m(b)))
            }
            Op::InjL(c) => ENode::Op(Op::InjL(m(c))),
            Op::InjR(c) => ENode::Op(Op::InjR(m(c))),
            Op::Take(c) => ENode::Op(Op::Take(m(c))),
            Op::Drop(c) => ENode::Op(Op::Drop(m(c))),
            Op::Comp(a, b) => ENode::Op(Op::Comp(m(a), m(b))),
            Op::Case(a, b) => ENode::Op(Op::Case(m(a), m(b))),
            Op::Pair(a, b) => ENode::Op(Op::Pair(m(a), m(b))),
            Op::Disconnect(a, b) => ENode::Op(Op::Disconnect(m(a), b.as_ref().map(m))),
            other => ENode::Op(other.clone()),
        };
        list.push(e);
        pos[i] = list.len() - 1;
    }
    list
}

#[derive(Debug, Clone, PartialEq, Eq)]
pub enum ParseErr {
    Eof,
    BadNatural,
    BadIndex,
    BadJet,
    BadWord,
}

pub struct Parsed {
    pub list: Vec<ENode>,
    pub bits_used: usize,
}

/// Reference parser of a program bit string (no canonicity checks: pure syntax).
pub fn parse_list(all: &[bool], family: Family) -> Result<Parsed, ParseErr> {
    let mut pos = 0usize;
    let nat = |pos: &mut usize| -> Result<u64, ParseErr> {
        match bits::decode_natural(&all[*pos..]) {
            NatDecode::Ok(n, used) => {
                *pos += used;
                Ok(n)
            }
            NatDecode::Eof => Err(ParseErr::Eof),
            NatDecode::Overflow => Err(ParseErr::BadNatural),
        }
    };
    let len = nat(&mut pos)? as usize;
    if len > 50_000_000 {
        return Err(ParseErr::BadNatural);
    }
    let mut list = Vec::with_capacity(len.min(10_000));
    for i in 0..len {
        let take = |pos: &mut usize, n: usize| -> Result<Vec<bool>, ParseErr> {
            if *pos + n > all.len() {
                return Err(ParseErr::Eof);
            }
            let v = all[*pos..*pos + n].to_vec();
            *pos += n;
            Ok(v)
        };
        let child = |pos: &mut usize| -> Result<usize, ParseErr> {
            let d = nat(pos)? as usize;
            if d > i {
                return Err(ParseErr::BadIndex);
            }
            Ok(i - d)
        };
        let b0 = take(&mut pos, 1)?[0];
        let node = if b0 {
            let b1 = take(&mut pos, 1)?[0];
            if b1 {
                // jet: recognised by the family's table
                let rest = bits::bytes_of_bits(&all[pos..]);
                let mut it = BitIter::from(&rest[..]);
                let j = match family {
                    Family::Core => Core::decode(&mut it).map(JetRef::Core).map_err(|_| ParseErr::BadJet)?,
                    Family::Elements => Elements::decode(&mut it).map(JetRef::Elements).map_err(|_| ParseErr::BadJet)?,
                    Family::None => return Err(ParseErr::BadJet),
                };
                if pos + it.n_total_read() > all.len() {
                    return Err(ParseErr::Eof);
                }
                pos += it.n_total_read();
                ENode::Op(Op::Jet(j))
            } else {
                let n = nat(&mut pos)?;
                if n > 32 {
                    return Err(ParseErr::BadWord);
                }
                let n = (n - 1) as u8;
                if n > 20 {
                    return Err(ParseErr::BadWord);
                }
                let w = take(&mut pos, 1usize << n)?;
                ENode::Op(Op::Word(n, bits::bytes_of_bits(&w)))
            }
        } else {
            let code = take(&mut pos, 2)?;
            match (code[0], code[1]) {
                (false, false) => {
                    let sub = take(&mut pos, 2)?;
                    let a = child(&mut pos)?;
                    let b = child(&mut pos)?;
                    ENode::Op(match (sub[0], sub[1]) {
                        (false, false) => Op::Comp(a, b),
                        (false, true) => Op::Case(a, b),
                        (true, false) => Op::Pair(a, b),
                        (true, true) => Op::Disconnect(a, Some(b)),
                    })
                }
                (false, true) => {
                    let sub = take(&mut pos, 2)?;
                    let a = child(&mut pos)?;
                    ENode::Op(match (sub[0], sub[1]) {
                        (false, false) => Op::InjL(a),
                        (false, true) => Op::InjR(a),
                        (true, false) => Op::Take(a),
                        (true, true) => Op::Drop(a),
                    })
                }
                (true, false) => {
                    let sub = take(&mut pos, 2)?;
                    match (sub[0], sub[1]) {
                        (false, false) => ENode::Op(Op::Iden),
                        (false, true) => ENode::Op(Op::Unit),
                        (true, false) => {
                            let e = take(&mut pos, 512)?;
                            let mut en = [0u8; 64];
                            en.copy_from_slice(&bits::bytes_of_bits(&e));
                            ENode::Op(Op::Fail(en))
                        }
                        (true, true) => {
                            let a = child(&mut pos)?;
                            ENode::Op(Op::Disconnect(a, None))
                        }
                    }
                }
                (true, true) => {
                    if take(&mut pos, 1)?[0] {
                        ENode::Op(Op::Witness(None))
                    } else {
                        let h = take(&mut pos, 256)?;
                        let mut hh = [0u8; 32];
                        hh.copy_from_slice(&bits::bytes_of_bits(&h));
                        ENode::Hidden(hh)
                    }
                }
            }
        };
        list.push(node);
    }
    Ok(Parsed { list, bits_used: pos })
}

/// Turn a parsed list back into an AST (hidden entries fold into assertions). `None` if a hidden
/// entry is used outside a case, both sides are hidden, or the root is hidden.
pub fn dag_of_list(list: &[ENode]) -> Option<Dag> {
    let mut dag = Dag::default();
    let mut map: Vec<Option<usize>> = Vec::with_capacity(list.len());
    for n in list {
        match n {
            ENode::Hidden(_) => map.push(None),
            ENode::Op(op) => {
                let m = |c: &usize| map[*c];
                let hid = |c: &usize| if let ENode::Hidden(h) = &list[*c] { Some(*h) } else { None };
                let new = match op {
                    Op::Case(a, b) => match (m(a), m(b)) {
                        (Some(x), Some(y)) => Op::Case(x, y),
                        (Some(x), None) => Op::AssertL(x, hid(b)?),
                        (None, Some(y)) => Op::AssertR(hid(a)?, y),
                        (None, None) => return None,
                    },
                    Op::InjL(c) => Op::InjL(m(c)?),
                    Op::InjR(c) => Op::InjR(m(c)?),
                    Op::Take(c) => Op::Take(m(c)?),
                    Op::Drop(c) => Op::Drop(m(c)?),
                    Op::Comp(a, b) => Op::Comp(m(a)?, m(b)?),
                    Op::Pair(a, b) => Op::Pair(m(a)?, m(b)?),
                    Op::Disconnect(a, Some(b)) => Op::Disconnect(m(a)?, Some(m(b)?)),
                    Op::Disconnect(a, None) => Op::Disconnect(m(a)?, None),
                    other => other.clone(),
                };
                map.push(Some(dag.push(new)));
            }
        }
    }
    map.last().copied().flatten()?;
    Some(dag)
}

/// Structure hash of every AST node: like a commitment root, but disconnect includes its branch,
/// so that two DAGs unfold to the same tree iff their root structure hashes agree.
pub fn structure_hashes(dag: &Dag) -> Vec<u64> {
    use crate::rng::{hash_bytes, hash_str, mix};
    let mut out: Vec<u64> = Vec::with_capacity(dag.len());
    for op in &dag.nodes {
        let tag = hash_str(op.name());
        let h = match op {
            Op::Iden | Op::Unit | Op::Witness(_) => tag,
            Op::InjL(c) | Op::InjR(c) | Op::Take(c) | Op::Drop(c) => mix(tag, out[*c]),
            Op::Comp(a, b) | Op::Case(a, b) | Op::Pair(a, b) => mix(mix(tag, out[*a]), out[*b]),
            Op::AssertL(a, h) => mix(mix(tag, out[*a]), hash_bytes(h)),
            Op::AssertR(h, b) => mix(mix(tag, hash_bytes(h)), out[*b]),
            Op::Disconnect(a, Some(b)) => mix(mix(tag, out[*a]), out[*b]),
            Op::Disconnect(a, None) => mix(mix(tag, out[*a]), 0x4040),
            Op::Fail(e) => mix(tag, hash_bytes(e)),
            Op::Word(n, b) => mix(mix(tag, u64::from(*n)), hash_bytes(b)),
            Op::Jet(j) => mix(tag, hash_str(&j.name())),
        };
        out.push(h);
    }
    out
}
