//! G-val: abstract values, their padded/compact encodings computed from the definition, the model
//! projection (prune), and "histories" realising the same abstract value as a library `Value`
//! in different ways. `sem_eq` compares library values semantically without using `Value::==`.

use crate::bits::Bits;
use crate::rng::Rng;
use crate::ty::{self, Kind, ToFinal, Ty, T};
use simplicity::types::Final;
use simplicity::{BitIter, Value};
use std::sync::Arc;

#[derive(Clone, Debug, PartialEq, Eq, Hash)]
pub enum V {
    Unit,
    L(Box<V>),
    R(Box<V>),
    P(Box<V>, Box<V>),
}

pub fn gen_val(rng: &mut Rng, t: &Ty) -> V {
    match &t.kind {
        Kind::Unit => V::Unit,
        Kind::Sum(a, b) => {
            if rng.bool() {
                V::L(Box::new(gen_val(rng, a)))
            } else {
                V::R(Box::new(gen_val(rng, b)))
            }
        }
        Kind::Prod(a, b) => V::P(Box::new(gen_val(rng, a)), Box::new(gen_val(rng, b))),
    }
}

/// All-left ("zero") value.
pub fn zero_val(t: &Ty) -> V {
    match &t.kind {
        Kind::Unit => V::Unit,
        Kind::Sum(a, _) => V::L(Box::new(zero_val(a))),
        Kind::Prod(a, b) => V::P(Box::new(zero_val(a)), Box::new(zero_val(b))),
    }
}

pub fn ones_val(t: &Ty) -> V {
    match &t.kind {
        Kind::Unit => V::Unit,
        Kind::Sum(_, b) => V::R(Box::new(ones_val(b))),
        Kind::Prod(a, b) => V::P(Box::new(ones_val(a)), Box::new(ones_val(b))),
    }
}

/// Is `v` a value of type `t`?
pub fn has_type(v: &V, t: &Ty) -> bool {
    match (v, &t.kind) {
        (V::Unit, Kind::Unit) => true,
        (V::L(x), Kind::Sum(a, _)) => has_type(x, a),
        (V::R(x), Kind::Sum(_, b)) => has_type(x, b),
        (V::P(x, y), Kind::Prod(a, b)) => has_type(x, a) && has_type(y, b),
        _ => false,
    }
}

/// Padded encoding; `None` marks a padding position (its content is not part of the value).
pub fn padded(v: &V, t: &Ty, out: &mut Vec<Option<bool>>) {
    match (v, &t.kind) {
        (V::Unit, Kind::Unit) => {}
        (V::L(x), Kind::Sum(a, b)) => {
            out.push(Some(false));
            for _ in 0..(a.width.max(b.width) - a.width) {
                out.push(None);
            }
            padded(x, a, out);
        }
        (V::R(x), Kind::Sum(a, b)) => {
            out.push(Some(true));
            for _ in 0..(a.width.max(b.width) - b.width) {
                out.push(None);
            }
            padded(x, b, out);
        }
        (V::P(x, y), Kind::Prod(a, b)) => {
            padded(x, a, out);
            padded(y, b, out);
        }
        _ => panic!("harness: value {:?} is not of type {}", v, t),
    }
}

pub fn padded_vec(v: &V, t: &Ty) -> Vec<Option<bool>> {
    let mut o = Vec::with_capacity(t.width);
    padded(v, t, &mut o);
    assert_eq!(o.len(), t.width, "harness: model width");
    o
}

/// Compact encoding: the padded one with all padding removed.
pub fn compact(v: &V, t: &Ty, out: &mut Bits) {
    match (v, &t.kind) {
        (V::Unit, Kind::Unit) => {}
        (V::L(x), Kind::Sum(a, _)) => {
            out.push(false);
            compact(x, a, out);
        }
        (V::R(x), Kind::Sum(_, b)) => {
            out.push(true);
            compact(x, b, out);
        }
        (V::P(x, y), Kind::Prod(a, b)) => {
            compact(x, a, out);
            compact(y, b, out);
        }
        _ => panic!("harness: value {:?} is not of type {}", v, t),
    }
}

pub fn compact_vec(v: &V, t: &Ty) -> Bits {
    let mut o = Vec::new();
    compact(v, t, &mut o);
    o
}

/// Fill padding positions with concrete bits.
pub fn fill_padding(p: &[Option<bool>], rng: &mut Rng, mode: u8) -> Bits {
    p.iter()
        .map(|b| match b {
            Some(b) => *b,
            None => match mode {
                0 => false,
                1 => true,
                _ => rng.bool(),
            },
        })
        .collect()
}

/// Reference decoder of a padded encoding (ignores padding positions).
pub fn decode_padded(bits: &[bool], t: &Ty) -> Option<V> {
    fn go(bits: &[bool], pos: usize, t: &Ty) -> Option<V> {
        match &t.kind {
            Kind::Unit => Some(V::Unit),
            Kind::Sum(a, b) => {
                let tag = *bits.get(pos)?;
                let w = a.width.max(b.width);
                if !tag {
                    Some(V::L(Box::new(go(bits, pos + 1 + (w - a.width), a)?)))
                } else {
                    Some(V::R(Box::new(go(bits, pos + 1 + (w - b.width), b)?)))
                }
            }
            Kind::Prod(a, b) => {
                let x = go(bits, pos, a)?;
                let y = go(bits, pos + a.width, b)?;
                Some(V::P(Box::new(x), Box::new(y)))
            }
        }
    }
    if bits.len() < t.width {
        return None;
    }
    go(bits, 0, t)
}

/// Reference decoder of a compact encoding; returns the value and the number of bits consumed.
pub fn decode_compact(bits: &[bool], t: &Ty) -> Option<(V, usize)> {
    fn go(bits: &[bool], pos: &mut usize, t: &Ty) -> Option<V> {
        match &t.kind {
            Kind::Unit => Some(V::Unit),
            Kind::Sum(a, b) => {
                let tag = *bits.get(*pos)?;
                *pos += 1;
                if !tag {
                    Some(V::L(Box::new(go(bits, pos, a)?)))
                } else {
                    Some(V::R(Box::new(go(bits, pos, b)?)))
                }
            }
            Kind::Prod(a, b) => {
                let x = go(bits, pos, a)?;
                let y = go(bits, pos, b)?;
                Some(V::P(Box::new(x), Box::new(y)))
            }
        }
    }
    let mut pos = 0;
    let v = go(bits, &mut pos, t)?;
    Some((v, pos))
}

/// Model of "smaller or equal" and of the projection. `None` = incompatible target.
pub fn prune_model(v: &V, t: &Ty, target: &Ty) -> Option<V> {
    if t == target {
        return Some(v.clone());
    }
    match (&target.kind, v, &t.kind) {
        (Kind::Unit, _, _) => Some(V::Unit),
        (Kind::Sum(ta, _), V::L(x), Kind::Sum(a, _)) => Some(V::L(Box::new(prune_model(x, a, ta)?))),
        (Kind::Sum(_, tb), V::R(x), Kind::Sum(_, b)) => Some(V::R(Box::new(prune_model(x, b, tb)?))),
        (Kind::Prod(ta, tb), V::P(x, y), Kind::Prod(a, b)) => {
            let px = prune_model(x, a, ta)?;
            let py = prune_model(y, b, tb)?;
            Some(V::P(Box::new(px), Box::new(py)))
        }
        _ => None,
    }
}

/// Is `target` ≤ `t` in the documented order (unit ≤ anything, component-wise for sums/products)?
pub fn smaller_eq(target: &Ty, t: &Ty) -> bool {
    if target == t {
        return true;
    }
    match (&target.kind, &t.kind) {
        (Kind::Unit, _) => true,
        (Kind::Sum(a1, b1), Kind::Sum(a2, b2)) => smaller_eq(a1, a2) && smaller_eq(b1, b2),
        (Kind::Prod(a1, b1), Kind::Prod(a2, b2)) => smaller_eq(a1, a2) && smaller_eq(b1, b2),
        _ => false,
    }
}

/// Random type ≤ t (replace random sub-types by unit).
pub fn shrink_ty(rng: &mut Rng, t: &T, p_unit: u64) -> T {
    if rng.chance(p_unit, 100) {
        return ty::unit();
    }
    match &t.kind {
        Kind::Unit => ty::unit(),
        Kind::Sum(a, b) => {
            if rng.chance(15, 100) {
                return t.clone();
            }
            ty::sum(shrink_ty(rng, a, p_unit), shrink_ty(rng, b, p_unit))
        }
        Kind::Prod(a, b) => {
            if rng.chance(15, 100) {
                return t.clone();
            }
            ty::prod(shrink_ty(rng, a, p_unit), shrink_ty(rng, b, p_unit))
        }
    }
}

/// Random type ≥ t (replace unit leaves by arbitrary types) together with a value of it that
/// projects onto `v`.
pub fn grow(rng: &mut Rng, v: &V, t: &T, budget: &mut usize) -> (V, T) {
    match (&t.kind, v) {
        (Kind::Unit, _) => {
            if *budget > 0 && rng.chance(1, 2) {
                let p = ty::TyParams { max_width: (*budget).min(40), max_depth: 3, max_word_n: 3 };
                let nt = ty::gen_ty(rng, &p);
                *budget = budget.saturating_sub(nt.width + 1);
                let nv = gen_val(rng, &nt);
                (nv, nt)
            } else {
                (V::Unit, ty::unit())
            }
        }
        (Kind::Sum(a, b), V::L(x)) => {
            let (nx, na) = grow(rng, x, a, budget);
            // the untaken side may grow arbitrarily as well
            let nb = grow_ty(rng, b, budget);
            (V::L(Box::new(nx)), ty::sum(na, nb))
        }
        (Kind::Sum(a, b), V::R(x)) => {
            let (nx, nb) = grow(rng, x, b, budget);
            let na = grow_ty(rng, a, budget);
            (V::R(Box::new(nx)), ty::sum(na, nb))
        }
        (Kind::Prod(a, b), V::P(x, y)) => {
            let (nx, na) = grow(rng, x, a, budget);
            let (ny, nb) = grow(rng, y, b, budget);
            (V::P(Box::new(nx), Box::new(ny)), ty::prod(na, nb))
        }
        _ => panic!("harness: grow on ill-typed value"),
    }
}

fn grow_ty(rng: &mut Rng, t: &T, budget: &mut usize) -> T {
    match &t.kind {
        Kind::Unit => {
            if *budget > 0 && rng.chance(1, 2) {
                let p = ty::TyParams { max_width: (*budget).min(40), max_depth: 3, max_word_n: 3 };
                let nt = ty::gen_ty(rng, &p);
                *budget = budget.saturating_sub(nt.width + 1);
                nt
            } else {
                ty::unit()
            }
        }
        Kind::Sum(a, b) => ty::sum(grow_ty(rng, a, budget), grow_ty(rng, b, budget)),
        Kind::Prod(a, b) => ty::prod(grow_ty(rng, a, budget), grow_ty(rng, b, budget)),
    }
}

pub fn show(v: &V) -> String {
    // compact textual form; long runs are elided by the caller's truncation
    match v {
        V::Unit => "()".into(),
        V::L(x) => format!("L{}", show_inner(x)),
        V::R(x) => format!("R{}", show_inner(x)),
        V::P(x, y) => format!("({},{})", show(x), show(y)),
    }
}
fn show_inner(v: &V) -> String {
    match v {
        V::Unit => "".into(),
        _ => format!("({})", show(v)),
    }
}

// ------------------------------------------------------------------ library side

/// What the library says a value is, read through `iter_compact` and its type — never through `==`.
pub fn lib_compact(v: &Value) -> Bits {
    v.iter_compact().collect()
}

pub fn lib_padded(v: &Value) -> Bits {
    v.iter_padded().collect()
}

/// Semantic equality of two library values: same type (structurally, via the harness's own reading
/// of the `Final`) and same compact bit sequence.
pub fn sem_eq(a: &Value, b: &Value) -> bool {
    ty::from_final(a.ty()) == ty::from_final(b.ty()) && lib_compact(a) == lib_compact(b)
}

/// Does the library value denote abstract value `v` of type `t`?
pub fn denotes(lv: &Value, v: &V, t: &T) -> Result<(), String> {
    let lt = ty::from_final(lv.ty());
    if lt != *t {
        return Err(format!("type is {} ; expected {}", lt, t));
    }
    let c = lib_compact(lv);
    let want = compact_vec(v, t);
    if c != want {
        return Err(format!(
            "compact bits {} ; expected {}",
            crate::bits::bits_str(&c),
            crate::bits::bits_str(&want)
        ));
    }
    let p = lib_padded(lv);
    let wantp = padded_vec(v, t);
    if p.len() != wantp.len() {
        return Err(format!("padded length {} ; expected {}", p.len(), wantp.len()));
    }
    for (i, (g, w)) in p.iter().zip(wantp.iter()).enumerate() {
        if let Some(w) = w {
            if g != w {
                return Err(format!(
                    "padded bit {} is {} ; expected {} (padded {})",
                    i,
                    u8::from(*g),
                    u8::from(*w),
                    crate::bits::bits_str(&p)
                ));
            }
        }
    }
    Ok(())
}

/// Names of the production histories.
pub const HISTORIES: [&str; 7] = [
    "ctor",
    "compact-decode",
    "padded-decode-dirty",
    "extract",
    "prune",
    "ctor-words",
    "extract-dirty",
];

/// h1: constructor tree.
pub fn build_ctor(v: &V, t: &T, tf: &mut ToFinal) -> Value {
    match (v, &t.kind) {
        (V::Unit, Kind::Unit) => Value::unit(),
        (V::L(x), Kind::Sum(a, b)) => Value::left(build_ctor(x, a, tf), tf.conv(b)),
        (V::R(x), Kind::Sum(a, b)) => Value::right(tf.conv(a), build_ctor(x, b, tf)),
        (V::P(x, y), Kind::Prod(a, b)) => Value::product(build_ctor(x, a, tf), build_ctor(y, b, tf)),
        _ => panic!("harness: ill-typed"),
    }
}

/// h-words: like h1 but word-typed sub-values are built with the integer constructors.
pub fn build_ctor_words(v: &V, t: &T, tf: &mut ToFinal) -> Value {
    if let Some(n) = t.as_word() {
        let bits = compact_vec(v, t);
        let bytes = crate::bits::bytes_of_bits(&bits);
        match n {
            0 => return Value::u1(u8::from(bits[0])),
            1 => return Value::u2(bytes[0] >> 6),
            2 => return Value::u4(bytes[0] >> 4),
            3 => return Value::u8(bytes[0]),
            4 => return Value::u16(u16::from_be_bytes([bytes[0], bytes[1]])),
            5 => return Value::u32(u32::from_be_bytes(bytes[..4].try_into().unwrap())),
            6 => return Value::u64(u64::from_be_bytes(bytes[..8].try_into().unwrap())),
            7 => return Value::u128(u128::from_be_bytes(bytes[..16].try_into().unwrap())),
            8 => return Value::u256(bytes[..32].try_into().unwrap()),
            9 => return Value::u512(bytes[..64].try_into().unwrap()),
            _ => {}
        }
    }
    match (v, &t.kind) {
        (V::Unit, Kind::Unit) => Value::unit(),
        (V::L(x), Kind::Sum(a, b)) => Value::left(build_ctor_words(x, a, tf), tf.conv(b)),
        (V::R(x), Kind::Sum(a, b)) => Value::right(tf.conv(a), build_ctor_words(x, b, tf)),
        (V::P(x, y), Kind::Prod(a, b)) => {
            Value::product(build_ctor_words(x, a, tf), build_ctor_words(y, b, tf))
        }
        _ => panic!("harness: ill-typed"),
    }
}

/// h2: decode the model's compact bits (followed by junk, to make over-reading visible).
pub fn build_from_compact(v: &V, t: &T, tf: &mut ToFinal, rng: &mut Rng) -> Result<Value, String> {
    let mut bits = compact_vec(v, t);
    let n = bits.len();
    for _ in 0..rng.usize_below(12) {
        bits.push(rng.bool());
    }
    let bytes = crate::bits::bytes_of_bits(&bits);
    let mut it = BitIter::from(&bytes[..]);
    let f = tf.conv(t);
    let r = Value::from_compact_bits(&mut it, &f).map_err(|e| format!("from_compact_bits failed: {:?}", e))?;
    if it.n_total_read() != n {
        return Err(format!("from_compact_bits consumed {} bits, the encoding has {}", it.n_total_read(), n));
    }
    Ok(r)
}

/// h3: decode the model's padded bits with chosen content in the padding positions.
pub fn build_from_padded(v: &V, t: &T, tf: &mut ToFinal, rng: &mut Rng, mode: u8) -> Result<Value, String> {
    let mut bits = fill_padding(&padded_vec(v, t), rng, mode);
    let n = bits.len();
    for _ in 0..rng.usize_below(12) {
        bits.push(rng.bool());
    }
    let bytes = crate::bits::bytes_of_bits(&bits);
    let mut it = BitIter::from(&bytes[..]);
    let f = tf.conv(t);
    let r = Value::from_padded_bits(&mut it, &f).map_err(|e| format!("from_padded_bits failed: {:?}", e))?;
    if it.n_total_read() != n {
        return Err(format!("from_padded_bits consumed {} bits, the type is {} wide", it.n_total_read(), n));
    }
    Ok(r)
}

/// A context: a larger (value, type) with a hole, described as the path from the root to the hole.
#[derive(Clone, Debug)]
pub enum Step {
    InL(T),       // hole is the payload of a left value; T = right type
    InR(T),       // hole is the payload of a right value; T = left type
    Fst(V, T),    // hole is the first component; (second value, type)
    Snd(V, T),    // hole is the second component; (first value, type)
}

pub fn gen_context(rng: &mut Rng, depth: usize) -> Vec<Step> {
    let p = ty::TyParams { max_width: 24, max_depth: 3, max_word_n: 3 };
    (0..depth)
        .map(|_| match rng.below(4) {
            0 => Step::InL(ty::gen_ty(rng, &p)),
            1 => Step::InR(ty::gen_ty(rng, &p)),
            2 => {
                let t = ty::gen_ty(rng, &p);
                Step::Fst(gen_val(rng, &t), t)
            }
            _ => {
                // a first component of every width residue, so that the hole sits at every bit offset
                let t = if rng.bool() {
                    let mut t = ty::unit();
                    for _ in 0..rng.usize_below(8) {
                        t = ty::prod(t, ty::bit());
                    }
                    t
                } else {
                    ty::gen_ty(rng, &p)
                };
                Step::Snd(gen_val(rng, &t), t)
            }
        })
        .collect()
}

/// Plug (v, t) into the context (outermost step first); returns the whole value and type.
pub fn plug(ctx: &[Step], v: &V, t: &T) -> (V, T) {
    let mut cv = v.clone();
    let mut ct = t.clone();
    for s in ctx.iter().rev() {
        match s {
            Step::InL(r) => {
                cv = V::L(Box::new(cv));
                ct = ty::sum(ct, r.clone());
            }
            Step::InR(l) => {
                cv = V::R(Box::new(cv));
                ct = ty::sum(l.clone(), ct);
            }
            Step::Fst(sv, st) => {
                cv = V::P(Box::new(cv), Box::new(sv.clone()));
                ct = ty::prod(ct, st.clone());
            }
            Step::Snd(fv, ft) => {
                cv = V::P(Box::new(fv.clone()), Box::new(cv));
                ct = ty::prod(ft.clone(), ct);
            }
        }
    }
    (cv, ct)
}

/// h4: build the plugged value through `whole_history`, then walk down with the accessors.
pub fn extract(whole: &Value, ctx: &[Step]) -> Result<Value, String> {
    let mut r = whole.as_ref();
    for (i, s) in ctx.iter().enumerate() {
        r = match s {
            Step::InL(_) => r.as_left().ok_or_else(|| format!("as_left returned None at step {}", i))?,
            Step::InR(_) => r.as_right().ok_or_else(|| format!("as_right returned None at step {}", i))?,
            Step::Fst(..) => r.as_product().ok_or_else(|| format!("as_product returned None at step {}", i))?.0,
            Step::Snd(..) => r.as_product().ok_or_else(|| format!("as_product returned None at step {}", i))?.1,
        };
    }
    Ok(r.to_value())
}

/// Realise (v, t) through history number `h` (index into HISTORIES).
pub fn realise(h: usize, v: &V, t: &T, rng: &mut Rng) -> Result<Value, String> {
    let mut tf = ToFinal::new();
    match h {
        0 => Ok(build_ctor(v, t, &mut tf)),
        1 => build_from_compact(v, t, &mut tf, rng),
        2 => {
            let mode = 1 + rng.below(2) as u8;
            build_from_padded(v, t, &mut tf, rng, mode)
        }
        3 => {
            let depth = rng.urange(1, 4);
            let ctx = gen_context(rng, depth);
            let (wv, wt) = plug(&ctx, v, t);
            let whole = match rng.below(3) {
                0 => build_ctor(&wv, &wt, &mut tf),
                1 => build_from_compact(&wv, &wt, &mut tf, rng)?,
                _ => build_from_padded(&wv, &wt, &mut tf, rng, 0)?,
            };
            extract(&whole, &ctx)
        }
        4 => {
            let mut budget = 60usize;
            let (bv, bt) = grow(rng, v, t, &mut budget);
            let big = match rng.below(3) {
                0 => build_ctor(&bv, &bt, &mut tf),
                1 => build_from_compact(&bv, &bt, &mut tf, rng)?,
                _ => build_from_padded(&bv, &bt, &mut tf, rng, 2)?,
            };
            let f = tf.conv(t);
            big.prune(&f).ok_or_else(|| format!("prune of a value of type {} to the smaller type {} returned None", bt, t))
        }
        5 => Ok(build_ctor_words(v, t, &mut tf)),
        6 => {
            // extraction from a decoded buffer whose padding (and neighbours) are all ones
            let depth = rng.urange(1, 4);
            let ctx = gen_context(rng, depth);
            let (wv, wt) = plug(&ctx, v, t);
            let whole = build_from_padded(&wv, &wt, &mut tf, rng, 1)?;
            extract(&whole, &ctx)
        }
        _ => panic!("harness: no such history"),
    }
}

pub fn final_of(t: &T) -> Arc<Final> {
    ty::to_final(t)
}
