//! Worker binary: `vw <PROPERTY> --tier T --seed S --shard i --nshards n --budget-ms B --out DIR`
//! or `vw <PROPERTY> --one <sub> <idx> --seed S --tier T` to replay a single case.
use vcore::runner::{install_panic_hook, Ctx};

#[global_allocator]
static GLOBAL: vcore::alloc::Counting = vcore::alloc::Counting;

fn dispatch(ctx: &Ctx) {
    match ctx.prop.as_str() {
        "C01" => vcore::c01::run(ctx),
        "C02" => vcore::c02::run(ctx),
        "C03" => vcore::c03::run(ctx),
        "C04" => vcore::c04::run(ctx),
        "C05" => vcore::c05::run(ctx),
        "C06" => vcore::c06::run(ctx),
        "C07" => vcore::c07::run(ctx),
        "C08" => vcore::c08::run(ctx),
        "C09" => vcore::c09::run(ctx),
        "C10" => vcore::c10::run(ctx),
        "C11" => vcore::c11::run(ctx),
        "C12" => vcore::c12::run(ctx),
        "C13" => vcore::c13::run(ctx),
        "C14" => vcore::c14::run(ctx),
        "C15" => vcore::c15::run(ctx),
        "C16" => vcore::c16::run(ctx),
        "C17" => vcore::c17::run(ctx),
        "C20" => vcore::c20::run(ctx),
        "C18" => vcore::c18::run(ctx),
        "C19" => vcore::c19::run(ctx),
        p => {
            eprintln!("unknown property {}", p);
            std::process::exit(2);
        }
    }
}

fn main() {
    let args: Vec<String> = std::env::args().skip(1).collect();
    if args.first().map(|s| s.as_str()) == Some("C20-cold") {
        // child process of the C20 cold-start sub-check: vw C20-cold --seed N
        let seed: u64 = args.get(2).and_then(|s| s.parse().ok()).unwrap_or(1);
        // program bytes come from the parent (a file of `hex hex` lines), so that nothing in this process has touched
        // the library before the threads start
        let file_text = args.get(4).map(|p| std::fs::read_to_string(p).unwrap_or_default()).unwrap_or_default();
        let expected: Vec<String> = file_text.lines().filter_map(|l| l.strip_prefix("= ")).map(|h| String::from_utf8_lossy(&vcore::runner::unhex(h)).into_owned()).collect();
        let progs: Vec<(Vec<u8>, Vec<u8>)> = match args.get(4) {
            Some(_) => file_text
                .lines()
                .filter(|l| !l.starts_with("= "))
                .filter_map(|l| {
                    let mut it = l.split_whitespace();
                    let p = vcore::runner::unhex(it.next()?);
                    let w = it.next().map(|w| if w == "-" { vec![] } else { vcore::runner::unhex(w) }).unwrap_or_default();
                    Some((p, w))
                })
                .collect(),
            None => vcore::c20::cold_inputs(seed),
        };
        match vcore::c20::cold_process(seed, &progs, &expected) {
            Ok(n) => {
                println!("consistent {}", n);
                std::process::exit(0);
            }
            Err(e) => {
                println!("{}", e);
                std::process::exit(1);
            }
        }
    }
    let ctx = Ctx::from_args(&args);
    if ctx.param_u64("nojets", 0) == 1 {
        vcore::gen::NO_JETS.store(true, std::sync::atomic::Ordering::Relaxed);
    }
    install_panic_hook();
    // Pinned stack size: recursion findings are keyed on depth, not on `ulimit -s`.
    let handle = std::thread::Builder::new()
        .name("vw-main".into())
        .stack_size(8 << 20)
        .spawn(move || {
            dispatch(&ctx);
            if ctx.one.is_some() {
                ctx.finish_one()
            } else {
                ctx.flush(true);
                0
            }
        })
        .expect("spawn");
    let code = handle.join().unwrap_or(70);
    std::process::exit(code);
}
