//! G-type: the harness's own representation of finalized Simplicity types, with widths and
//! padding computed from the definition (never read from the library), a structural generator,
//! and conversion to the library's `Final` only for calling it.

use crate::rng::Rng;
use simplicity::types::Final;
use std::collections::HashMap;
use std::fmt;
use std::sync::Arc;

pub type T = Arc<Ty>;

#[derive(Debug, PartialEq, Eq, Hash)]
pub enum Kind {
    Unit,
    Sum(T, T),
    Prod(T, T),
}

#[derive(Debug)]
pub struct Ty {
    pub kind: Kind,
    /// Bit width of the padded encoding: |1| = 0, |A+B| = 1 + max(|A|,|B|), |A×B| = |A| + |B|.
    pub width: usize,
    /// Does the padded encoding contain padding anywhere?
    pub has_padding: bool,
    /// Number of nodes of the unfolded type tree (saturating).
    pub tree_size: u64,
    pub depth: u32,
    hash: u64,
}

impl PartialEq for Ty {
    fn eq(&self, o: &Ty) -> bool {
        // structural 64-bit hash + size fingerprints; no recursion (types can be exponentially large as trees)
        std::ptr::eq(self, o) || (self.hash == o.hash && self.width == o.width && self.tree_size == o.tree_size && self.depth == o.depth)
    }
}
impl Eq for Ty {}
impl std::hash::Hash for Ty {
    fn hash<H: std::hash::Hasher>(&self, h: &mut H) {
        h.write_u64(self.hash)
    }
}

pub fn unit() -> T {
    Arc::new(Ty {
        kind: Kind::Unit,
        width: 0,
        has_padding: false,
        tree_size: 1,
        depth: 0,
        hash: 0x5555_1111_2222_3333,
    })
}

pub fn sum(a: T, b: T) -> T {
    Arc::new(Ty {
        width: a.width.max(b.width).saturating_add(1),
        has_padding: a.has_padding || b.has_padding || a.width != b.width,
        tree_size: a.tree_size.saturating_add(b.tree_size).saturating_add(1),
        depth: 1 + a.depth.max(b.depth),
        hash: crate::rng::mix(crate::rng::mix(a.hash, 0xA), b.hash),
        kind: Kind::Sum(a, b),
    })
}

pub fn prod(a: T, b: T) -> T {
    Arc::new(Ty {
        width: a.width.saturating_add(b.width),
        has_padding: a.has_padding || b.has_padding,
        tree_size: a.tree_size.saturating_add(b.tree_size).saturating_add(1),
        depth: 1 + a.depth.max(b.depth),
        hash: crate::rng::mix(crate::rng::mix(a.hash, 0xB), b.hash),
        kind: Kind::Prod(a, b),
    })
}

pub fn bit() -> T {
    sum(unit(), unit())
}

/// 2^(2^n)
pub fn word(n: usize) -> T {
    let mut t = bit();
    for _ in 0..n {
        t = prod(t.clone(), t);
    }
    t
}

pub fn option(a: T) -> T {
    sum(unit(), a)
}

/// (2^8)^<2^(n+1): buffer of fewer than 2^(n+1) bytes.
/// X^<2 = S X ; X^<(2m) = S (X^m) × X^<m
pub fn buffer8(n: usize) -> T {
    // X^(2^k) for X = 2^8 is word(3 + k)
    let mut t = option(word(3)); // X^<2
    for k in 1..=n {
        // X^<(2^(k+1)) = S(X^(2^k)) × X^<(2^k)
        t = prod(option(word(3 + k)), t);
    }
    t
}

/// Ctx8 = (2^8)^<64 × (2^64 × 2^256)
pub fn ctx8() -> T {
    prod(buffer8(5), prod(word(6), word(8)))
}

impl Ty {
    pub fn is_unit(&self) -> bool {
        matches!(self.kind, Kind::Unit)
    }
    pub fn as_sum(&self) -> Option<(&T, &T)> {
        match &self.kind {
            Kind::Sum(a, b) => Some((a, b)),
            _ => None,
        }
    }
    pub fn as_prod(&self) -> Option<(&T, &T)> {
        match &self.kind {
            Kind::Prod(a, b) => Some((a, b)),
            _ => None,
        }
    }
    pub fn ident(&self) -> u64 {
        self.hash
    }
    /// If this is 2^(2^n), return n.
    pub fn as_word(&self) -> Option<usize> {
        let mut n = 0;
        let mut t = self;
        loop {
            match &t.kind {
                Kind::Sum(a, b) if a.is_unit() && b.is_unit() => return Some(n),
                Kind::Prod(a, b) if a == b => {
                    n += 1;
                    t = a;
                }
                _ => return None,
            }
        }
    }
    /// pad_l for a sum A+B: padding after the tag of a left value.
    pub fn pad_l(&self) -> usize {
        let (a, b) = self.as_sum().expect("sum");
        a.width.max(b.width) - a.width
    }
    pub fn pad_r(&self) -> usize {
        let (a, b) = self.as_sum().expect("sum");
        a.width.max(b.width) - b.width
    }
}

impl fmt::Display for Ty {
    fn fmt(&self, f: &mut fmt::Formatter) -> fmt::Result {
        if let Some(n) = self.as_word() {
            return if n == 0 { write!(f, "2") } else { write!(f, "2^{}", 1u64 << n) };
        }
        match &self.kind {
            Kind::Unit => write!(f, "1"),
            Kind::Sum(a, b) => write!(f, "({} + {})", a, b),
            Kind::Prod(a, b) => write!(f, "({} * {})", a, b),
        }
    }
}

/// Conversion to the library's type, memoised by node identity so that shared sub-types stay shared.
pub struct ToFinal {
    memo: HashMap<*const Ty, Arc<Final>>,
    /// keeps memo keys alive so that addresses are not recycled
    keep: Vec<T>,
}

impl ToFinal {
    pub fn new() -> Self {
        ToFinal { memo: HashMap::new(), keep: Vec::new() }
    }
    pub fn conv(&mut self, t: &T) -> Arc<Final> {
        let key = Arc::as_ptr(t);
        if let Some(f) = self.memo.get(&key) {
            return f.clone();
        }
        let f = match &t.kind {
            Kind::Unit => Final::unit(),
            Kind::Sum(a, b) => {
                let fa = self.conv(a);
                let fb = self.conv(b);
                Final::sum(fa, fb)
            }
            Kind::Prod(a, b) => {
                let fa = self.conv(a);
                let fb = self.conv(b);
                Final::product(fa, fb)
            }
        };
        self.memo.insert(key, f.clone());
        self.keep.push(t.clone());
        f
    }
}

pub fn to_final(t: &T) -> Arc<Final> {
    ToFinal::new().conv(t)
}

/// Read a library type back into the harness representation (structure only; widths recomputed).
pub fn from_final(f: &Final) -> T {
    fn go(f: &Final, memo: &mut HashMap<*const Final, T>) -> T {
        let key = f as *const Final;
        if let Some(t) = memo.get(&key) {
            return t.clone();
        }
        let t = if let Some((a, b)) = f.as_sum() {
            let ta = go(a, memo);
            let tb = go(b, memo);
            sum(ta, tb)
        } else if let Some((a, b)) = f.as_product() {
            let ta = go(a, memo);
            let tb = go(b, memo);
            prod(ta, tb)
        } else {
            unit()
        };
        memo.insert(key, t.clone());
        t
    }
    go(f, &mut HashMap::new())
}

/// Generator parameters.
#[derive(Clone, Copy, Debug)]
pub struct TyParams {
    pub max_width: usize,
    pub max_depth: u32,
    pub max_word_n: usize,
}

impl TyParams {
    pub fn small() -> Self {
        TyParams { max_width: 96, max_depth: 5, max_word_n: 5 }
    }
    pub fn medium() -> Self {
        TyParams { max_width: 1200, max_depth: 7, max_word_n: 8 }
    }
    pub fn large() -> Self {
        TyParams { max_width: 10_000, max_depth: 9, max_word_n: 11 }
    }
}

/// Random type, biased towards sums of unequal width, unit-heavy products and words.
pub fn gen_ty(rng: &mut Rng, p: &TyParams) -> T {
    fn go(rng: &mut Rng, p: &TyParams, depth: u32, budget: usize) -> T {
        if depth >= p.max_depth || budget == 0 {
            return match rng.below(3) {
                0 => unit(),
                1 => bit(),
                _ => {
                    let n = rng.usize_below(p.max_word_n.min(4) + 1);
                    if (1usize << n) <= budget.max(1) { word(n) } else { unit() }
                }
            };
        }
        match rng.weighted(&[10, 8, 22, 22, 14, 5, 3, 1]) {
            0 => unit(),
            1 => bit(),
            2 => {
                let a = go(rng, p, depth + 1, budget);
                let b = go(rng, p, depth + 1, budget);
                sum(a, b)
            }
            3 => {
                let a = go(rng, p, depth + 1, budget / 2);
                let b = go(rng, p, depth + 1, budget - budget / 2);
                prod(a, b)
            }
            4 => {
                let mut n = rng.usize_below(p.max_word_n + 1);
                while n > 0 && (1usize << n) > budget {
                    n -= 1;
                }
                word(n)
            }
            5 => option(go(rng, p, depth + 1, budget.saturating_sub(1))),
            6 => {
                let n = rng.usize_below(3);
                let b = buffer8(n);
                if b.width <= budget { b } else { bit() }
            }
            _ => {
                let c = ctx8();
                if c.width <= budget { c } else { unit() }
            }
        }
    }
    let t = go(rng, p, 0, p.max_width);
    if t.width > p.max_width {
        // rare (sums add a tag bit per level); shrink by retrying shallower
        let q = TyParams { max_depth: p.max_depth.saturating_sub(1), ..*p };
        if q.max_depth == 0 {
            return bit();
        }
        return gen_ty(rng, &q);
    }
    t
}

/// All types with at most `n` constructors (tiny, for enumeration).
pub fn all_types_up_to(n: usize) -> Vec<T> {
    // by size = number of internal nodes
    let mut by_size: Vec<Vec<T>> = vec![vec![unit()]];
    for s in 1..=n {
        let mut v = Vec::new();
        for l in 0..s {
            let r = s - 1 - l;
            for a in &by_size[l] {
                for b in &by_size[r] {
                    v.push(sum(a.clone(), b.clone()));
                    v.push(prod(a.clone(), b.clone()));
                }
            }
        }
        by_size.push(v);
    }
    by_size.into_iter().flatten().collect()
}
