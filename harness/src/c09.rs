//! C09 — the commitment root depends only on committed structure. Oracle: M-cmr (from-scratch hashing).

use crate::ast::{self, Dag, Op};
use crate::gen::{self, Family, GenParams};
use crate::prog::{self, Root};
use crate::rng::{hash_bytes, hash_str, Rng};
use crate::runner::{guard, violated, Case, Ctx, Outcome, Plan};
use crate::ty::{self, TyParams};
use crate::val;
use simplicity::dag::{DagLike, InternalSharing};
use simplicity::jet::CoreEnv;
use simplicity::node::{ConstructNode, CoreConstructible, DisconnectConstructible, Hiding, WitnessConstructible};
use simplicity::types::Context;
use simplicity::{Cmr, FailEntropy, HasCmr, Value};
use std::cell::RefCell;
use std::collections::HashMap;
use std::sync::Arc;

thread_local! {
    /// CMR -> hash of the one-level committed structure that produced it (injectivity monitor).
    static SEEN: RefCell<HashMap<[u8; 32], (u64, String)>> = RefCell::new(HashMap::new());
}

fn structure_key(dag: &Dag, i: usize, cm: &[[u8; 32]]) -> String {
    let h = |b: &[u8]| crate::bits::fmt_bytes(b);
    match &dag.nodes[i] {
        Op::Iden | Op::Unit | Op::Witness(_) => dag.nodes[i].name().to_string(),
        Op::InjL(c) | Op::InjR(c) | Op::Take(c) | Op::Drop(c) => format!("{}({})", dag.nodes[i].name(), h(&cm[*c])),
        Op::Comp(a, b) | Op::Pair(a, b) => format!("{}({},{})", dag.nodes[i].name(), h(&cm[*a]), h(&cm[*b])),
        Op::Case(a, b) => format!("case({},{})", h(&cm[*a]), h(&cm[*b])),
        Op::AssertL(a, r) => format!("case({},{})", h(&cm[*a]), h(r)),
        Op::AssertR(l, b) => format!("case({},{})", h(l), h(&cm[*b])),
        Op::Disconnect(a, _) => format!("disconnect({})", h(&cm[*a])),
        Op::Fail(e) => format!("fail({})", h(e)),
        Op::Word(n, b) => format!("word{}({})", n, h(b)),
        Op::Jet(j) => format!("jet({})", j.name()),
    }
}

/// Generic construction over any node-like type (Hiding wrapper, CMR-only compilation, real nodes).
fn build_generic<'b, N>(
    dag: &Dag,
    ctx: &Context<'b>,
    wits: &[Option<Value>],
    disc: &dyn Fn(&N, Option<&N>) -> Result<N, simplicity::types::Error>,
    post: &dyn Fn(usize, N) -> N,
) -> Result<Vec<N>, String>
where
    N: CoreConstructible<'b> + WitnessConstructible<'b, Option<Value>>,
{
    let mut nodes: Vec<N> = Vec::with_capacity(dag.len());
    for (i, op) in dag.nodes.iter().enumerate() {
        let e = |err: simplicity::types::Error| format!("node {}: {}", i, err);
        let n: N = match op {
            Op::Iden => N::iden(ctx),
            Op::Unit => N::unit(ctx),
            Op::InjL(c) => N::injl(&nodes[*c]),
            Op::InjR(c) => N::injr(&nodes[*c]),
            Op::Take(c) => N::take(&nodes[*c]),
            Op::Drop(c) => N::drop_(&nodes[*c]),
            Op::Comp(a, b) => N::comp(&nodes[*a], &nodes[*b]).map_err(e)?,
            Op::Case(a, b) => N::case(&nodes[*a], &nodes[*b]).map_err(e)?,
            Op::Pair(a, b) => N::pair(&nodes[*a], &nodes[*b]).map_err(e)?,
            Op::AssertL(a, h) => N::assertl(&nodes[*a], Cmr::from_byte_array(*h)).map_err(e)?,
            Op::AssertR(h, b) => N::assertr(Cmr::from_byte_array(*h), &nodes[*b]).map_err(e)?,
            Op::Disconnect(a, b) => disc(&nodes[*a], b.map(|b| &nodes[b])).map_err(e)?,
            Op::Witness(w) => N::witness(ctx, w.and_then(|w| wits[w].clone())),
            Op::Fail(en) => N::fail(ctx, FailEntropy::from_byte_array(*en)),
            Op::Word(n, b) => N::const_word(ctx, ast::lib_word(*n, b)),
            Op::Jet(j) => N::jet(ctx, j.as_dyn()),
        };
        nodes.push(post(i, n));
    }
    Ok(nodes)
}

fn check_program(rng: &mut Rng, case: &mut Case, family: Family, fuel: usize) -> Outcome {
    let p = GenParams { family, modelled_only: family == Family::Core, ..GenParams::basic(fuel) };
    let (a, b) = (ty::unit(), ty::unit());
    let mut dag = gen::gen_program(rng, &p, &a, &b);
    let typing = match prog::typing_ok_or_harness(&dag, true, None) {
        Ok(t) => t,
        Err(e) => return Outcome::Inconclusive(e),
    };
    gen::retype_witnesses(&mut dag, &typing);
    let cm = ast::cmrs(&dag);
    let want_root = cm[dag.root()];
    case.desc = dag.render();
    case.hash = Some(hash_str(&case.desc));
    let order = ast::natural_order(&dag);
    let bad = |what: &str, got: [u8; 32], want: [u8; 32], dag: &Dag| {
        violated(
            format!("cmr:{}", what),
            format!("{} has CMR {} ; hashing the tagged combinator tree from scratch gives {} ; program {}", what, crate::bits::fmt_bytes(&got), crate::bits::fmt_bytes(&want), dag.render()),
        )
    };

    // 1. construct nodes: every node
    let wits = match prog::witness_values(&dag, rng, true) {
        Ok(w) => w,
        Err(e) => return violated("witness-history-failed", e),
    };
    let r = guard(|| {
        Context::with_context(|ctx| -> Result<Option<(String, [u8; 32], [u8; 32])>, String> {
            let inst = ast::instantiate(&dag, &ctx, &order, &wits).map_err(|e| format!("node {}: {}", e.at, e.err))?;
            for i in 0..dag.len() {
                let got = inst.nodes[i].as_ref().unwrap().cmr().to_byte_array();
                if got != cm[i] {
                    return Ok(Some((format!("construct node {} ({})", i, dag.nodes[i].name()), got, cm[i])));
                }
            }
            Ok(None)
        })
    });
    match r {
        Ok(Ok(None)) => {}
        Ok(Ok(Some((what, got, want)))) => return bad(&what, got, want, &dag),
        Ok(Err(e)) => return violated("well-typed-program-rejected", format!("{} ; {}", e, dag.render())),
        Err(p) => return violated("panic:construct", p),
    }
    // injectivity bookkeeping on the model side (keys embed children's roots)
    let clash = SEEN.with(|s| {
        let mut s = s.borrow_mut();
        for i in 0..dag.len() {
            let key = structure_key(&dag, i, &cm);
            let kh = hash_str(&key);
            match s.get(&cm[i]) {
                Some((h, k)) if *h != kh => return Some((cm[i], k.clone(), key)),
                Some(_) => {}
                None => {
                    if s.len() < 400_000 {
                        s.insert(cm[i], (kh, key));
                    }
                }
            }
        }
        None
    });
    if let Some((c, k1, k2)) = clash {
        return violated("cmr-collision", format!("two different committed structures share CMR {}: {} vs {}", crate::bits::fmt_bytes(&c), k1, k2));
    }

    // 2. hiding wrapper with a random subset hidden
    {
        let hide: Vec<bool> = (0..dag.len()).map(|i| i != dag.root() && rng.chance(1, 6)).collect();
        let r = guard(|| {
            Context::with_context(|ctx| -> Result<Vec<[u8; 32]>, String> {
                type H<'b> = Hiding<'b, Arc<ConstructNode<'b>>>;
                let nodes = build_generic::<H>(
                    &dag,
                    &ctx,
                    &wits,
                    &|l, r| H::disconnect(l, &r.and_then(|h| h.as_node().cloned())),
                    &|i, n| if hide[i] { n.hide() } else { n },
                )?;
                Ok(nodes.iter().map(|n| n.cmr().to_byte_array()).collect())
            })
        });
        match r {
            Ok(Ok(got)) => {
                for i in 0..dag.len() {
                    if got[i] != cm[i] {
                        return bad(&format!("Hiding-wrapped node {} ({}) with hidden set {:?}", i, dag.nodes[i].name(), hide.iter().enumerate().filter(|x| *x.1).map(|x| x.0).collect::<Vec<_>>()), got[i], cm[i], &dag);
                    }
                }
                case.count("variant.hiding");
            }
            Ok(Err(e)) => return violated("hiding-rejected", format!("construction through the hiding wrapper failed: {} ; {}", e, dag.render())),
            Err(p) => return violated("panic:hiding", p),
        }
    }

    // 3. commit node and conversions
    let commit = match guard(|| prog::build_commit(&dag, &order, None, Root::Program)) {
        Ok(Ok(c)) => c,
        Ok(Err(e)) => return violated("well-typed-program-rejected", format!("{} ; {}", e, dag.render())),
        Err(p) => return violated("panic:commit", p),
    };
    if commit.cmr().to_byte_array() != want_root {
        return bad("CommitNode", commit.cmr().to_byte_array(), want_root, &dag);
    }
    {
        let post = prog::ast_post_order_mode(&dag, true);
        for (it, ai) in commit.as_ref().post_order_iter::<InternalSharing>().zip(post.iter()) {
            if it.node.cmr().to_byte_array() != cm[*ai] {
                return bad(&format!("CommitNode node {}", ai), it.node.cmr().to_byte_array(), cm[*ai], &dag);
            }
        }
        let r = guard(|| Context::with_context(|ctx| commit.unfinalize_types(&ctx).map(|c| c.cmr().to_byte_array()).map_err(|e| e.to_string())));
        match r {
            Ok(Ok(c)) if c == want_root => {}
            Ok(Ok(c)) => return bad("unfinalize_types(CommitNode)", c, want_root, &dag),
            Ok(Err(e)) => return violated("unfinalize-types-failed", e),
            Err(p) => return violated("panic:unfinalize_types", p),
        }
        let forest = simplicity::human_encoding::Forest::from_program(commit.clone());
        match forest.roots().get("main") {
            Some(m) if m.cmr().to_byte_array() == want_root => {}
            Some(m) => return bad("NamedCommitNode main", m.cmr().to_byte_array(), want_root, &dag),
            None => return violated("forest-no-main", "Forest::from_program has no main root".to_string()),
        }
        case.count("variant.commit");
    }

    // 4. redeem nodes: two witness assignments, alternative disconnected branches
    let has_hole = dag.nodes.iter().any(|o| matches!(o, Op::Disconnect(_, None)));
    if !has_hole {
        for round in 0..2 {
            let mut d2 = dag.clone();
            if round == 1 {
                // other witness values of the same types; other (well-typed) disconnected branches
                for w in d2.witness.iter_mut() {
                    w.0 = val::gen_val(rng, &w.1);
                }
                for i in 0..d2.len() {
                    if let Op::Disconnect(l, Some(r)) = d2.nodes[i].clone() {
                        if rng.bool() {
                            // replace the branch by a fresh expression of the same arrow, appended before i is impossible
                            // (indices), so swap in an existing node of the same arrow if there is one
                            let (rs, rt) = typing[r].clone();
                            if let Some(alt) = (0..i).find(|k| *k != r && typing[*k].0 == rs && typing[*k].1 == rt) {
                                d2.nodes[i] = Op::Disconnect(l, Some(alt));
                                case.count("variant.other-disconnect-branch");
                            }
                        }
                    }
                }
            }
            let root2 = d2.root();
            let d2 = gen::compact_witnesses(d2.reachable_from(root2));
            let cm2 = ast::cmrs(&d2);
            if cm2[d2.root()] != want_root {
                return Outcome::Inconclusive("harness: variant changed the model root".into());
            }
            let w2 = match prog::witness_values(&d2, rng, true) {
                Ok(w) => w,
                Err(e) => return violated("witness-history-failed", e),
            };
            let o2 = ast::natural_order(&d2);
            let redeem = match guard(|| prog::build_redeem(&d2, &o2, &w2, None, Root::Program)) {
                Ok(Ok(r)) => r,
                Ok(Err(e)) => {
                    // the alternative branch may change types; only the original assignment must succeed
                    if round == 0 {
                        return violated("well-typed-program-rejected", format!("{} ; {}", e, d2.render()));
                    }
                    continue;
                }
                Err(p) => return violated("panic:redeem", p),
            };
            if redeem.cmr().to_byte_array() != want_root {
                return bad(&format!("RedeemNode (witness assignment {})", round), redeem.cmr().to_byte_array(), want_root, &d2);
            }
            // conversions
            match guard(|| redeem.unfinalize().map(|c| c.cmr().to_byte_array()).map_err(|e| e.to_string())) {
                Ok(Ok(c)) if c == want_root => {}
                Ok(Ok(c)) => return bad("RedeemNode::unfinalize", c, want_root, &d2),
                Ok(Err(e)) => return violated("unfinalize-failed", e),
                Err(p) => return violated("panic:unfinalize", p),
            }
            match guard(|| Context::with_context(|ctx| redeem.to_construct_node(&ctx).cmr().to_byte_array())) {
                Ok(c) if c == want_root => {}
                Ok(c) => return bad("RedeemNode::to_construct_node", c, want_root, &d2),
                Err(p) => return violated("panic:to_construct_node", p),
            }
            // pruning keeps the root (when the run succeeds)
            if family != Family::Elements {
                match guard(|| redeem.prune(&CoreEnv::new())) {
                    Ok(Ok(pruned)) => {
                        if pruned.cmr().to_byte_array() != want_root {
                            return bad("pruned RedeemNode", pruned.cmr().to_byte_array(), want_root, &d2);
                        }
                        case.count("variant.pruned");
                    }
                    Ok(Err(_)) => case.count("variant.prune-run-failed"),
                    Err(p) => return violated("panic:prune", format!("{} ; {}", p, d2.render())),
                }
            }
            case.count("variant.redeem");
        }
    }
    if dag.len() >= 4 {
        Outcome::Held
    } else {
        Outcome::Trivial
    }
}

fn check_words(rng: &mut Rng, case: &mut Case) -> Outcome {
    // word constants of every size: model CMR vs library, and vs the equivalent explicit scribe's identity
    let n = rng.below(10) as u8;
    let nbits = 1usize << n;
    let mut bytes = rng.bytes(nbits.div_ceil(8));
    if nbits < 8 {
        bytes[0] &= !(0xffu8 >> nbits);
    }
    let want = ast::word_cmr(n, &bytes);
    let got = Cmr::const_word(&ast::lib_word(n, &bytes)).to_byte_array();
    case.desc = format!("word 2^{} {}", nbits, crate::bits::fmt_bytes(&bytes));
    case.hash = Some(hash_bytes(&bytes) ^ u64::from(n));
    if want != got {
        return violated("cmr:word", format!("{}: library {} model {}", case.desc, crate::bits::fmt_bytes(&got), crate::bits::fmt_bytes(&want)));
    }
    Outcome::Held
}

pub fn run(ctx: &Ctx) {
    let t = ctx.tier;
    ctx.run_sub("programs-nojets", Plan::sample(t.pick(100_000, 600_000), 0.35), |rng, case| {
        let fuel = rng.urange(2, 14);
        check_program(rng, case, Family::None, fuel)
    });
    ctx.run_sub("programs-core", Plan::sample(t.pick(80_000, 500_000), 0.3), |rng, case| {
        let fuel = rng.urange(2, 14);
        check_program(rng, case, Family::Core, fuel)
    });
    ctx.run_sub("programs-elements", Plan::sample(t.pick(60_000, 400_000), 0.2), |rng, case| {
        let fuel = rng.urange(2, 12);
        check_program(rng, case, Family::Elements, fuel)
    });
    // the human-readable encoding is one more way to build nodes (Node::from_parts): the root of a parsed
    // text is the root of the expression written down (every node, assertions with CMR literals included)
    ctx.run_sub("parsed-source-texts", Plan::sample(t.pick(30_000, 300_000), 0.1), |rng, case| {
        let family = *rng.pick(&[Family::None, Family::Core, Family::Elements]);
        let fuel = rng.urange(1, 20);
        let (dag, typing) = match crate::c17::gen_dag(rng, family, fuel, 10) {
            Some(x) => x,
            None => return Outcome::Inconclusive("generator".into()),
        };
        let (text, features) = crate::c17::source_text(rng, &dag, &typing);
        if features.contains(&"cmr-expression") {
            // a case written as an assertion on `#{expr}`: still the same root (assertions keep the case's root)
            case.count("parsed.with-cmr-expression");
        }
        case.desc = crate::runner::truncate(&text, 3000);
        case.hash = Some(crate::rng::hash_str(&text));
        let forest = match crate::c17::parse_family(&text, family) {
            Ok(Ok(f)) => f,
            Ok(Err(_)) => return Outcome::Inconclusive("generated text refused".into()),
            Err(pn) => return violated("panic:parse", pn),
        };
        let main = match forest.roots().get("main") {
            Some(m) => m,
            None => return Outcome::Trivial,
        };
        let want = ast::cmrs(&dag);
        if main.cmr().to_byte_array() != want[dag.root()] {
            return violated("cmr:parsed-text", format!("the text describes an expression with root {} but parses to {} ; text:\n{}", crate::bits::fmt_bytes(&want[dag.root()]), main.cmr(), case.desc));
        }
        for op in &dag.nodes {
            match op {
                crate::ast::Op::AssertL(..) => case.count("parsed.assertl-literal"),
                crate::ast::Op::AssertR(..) => case.count("parsed.assertr-literal"),
                _ => {}
            }
        }
        if dag.len() >= 3 { Outcome::Held } else { Outcome::Trivial }
    });
    // policy compilation: the root computed without building nodes (Policy::cmr), the root of the compiled
    // commit program, and the root of a satisfied + pruned program are one root
    ctx.run_sub("policy-compilation-paths", Plan::sample(t.pick(8_000, 200_000), 0.1), |rng, case| {
        let pools = crate::c16::gen_pools(rng);
        let mut spec = crate::txgen::gen_tx(rng, 2, 2);
        crate::c16::tune_locks(rng, &mut spec);
        let lt = crate::c16::lock_truth(&spec);
        let mut budget = rng.urange(2, 30);
        let depth = rng.urange(0, 5);
        let pol = crate::c16::gen_pol(rng, depth, &lt, &mut budget);
        let policy = crate::c16::to_policy(&pol, &pools);
        case.desc = format!("{}", policy);
        case.hash = Some(crate::rng::hash_str(&case.desc));
        let direct = match crate::runner::guard(|| policy.cmr()) {
            Ok(c) => c,
            Err(pn) => return violated("panic:policy-cmr", pn),
        };
        let commit = match crate::runner::guard(|| policy.commit()) {
            Ok(c) => c,
            Err(pn) => return violated("panic:policy-commit", pn),
        };
        if commit.cmr() != direct {
            return violated("cmr:policy-direct-vs-compiled", format!("Policy::cmr() = {} but commit().cmr() = {} ; {}", direct, commit.cmr(), case.desc));
        }
        spec.script_cmr = direct.to_byte_array();
        let env = crate::txgen::build_env(&spec);
        let avail = crate::c16::Avail { keys: [true; 4], pre: [true; 4] };
        if let (Ok(prog), _) = crate::c16::satisfy_with(&policy, &pools, &avail, &lt, &env) {
            case.count("policy.satisfied");
            if prog.cmr() != direct {
                return violated("cmr:policy-satisfied", format!("Policy::cmr() = {} but the satisfied program has {} ; {}", direct, prog.cmr(), case.desc));
            }
        }
        Outcome::Held
    });
    ctx.run_sub("words", Plan::sample(t.pick(30_000, 100_000), 0.1), check_words);
    let _ = TyParams::small();
}
