//! C11 — value equality, ordering and hashing are semantic. This is the only check in which
//! `Value::==` / `Ord` / `Hash` are the subject; the oracle is the abstract value model.

use crate::rng::{hash_str, Rng};
use crate::runner::{guard, violated, Case, Ctx, Outcome, Plan};
use crate::ty::{self, TyParams, T};
use crate::val::{self, V};
use simplicity::Value;
use std::cmp::Ordering;
use std::collections::hash_map::DefaultHasher;
use std::hash::{Hash, Hasher};

fn h64<X: Hash>(x: &X) -> u64 {
    let mut h = DefaultHasher::new();
    x.hash(&mut h);
    h.finish()
}

pub struct Realised {
    pub hist: &'static str,
    pub value: Value,
}

/// All histories of (v : t); machine-output history is appended by `machine_output` when available.
pub fn realise_all(v: &V, t: &T, rng: &mut Rng, with_machine: bool) -> Result<Vec<Realised>, (String, String)> {
    let mut out = Vec::new();
    for (h, name) in val::HISTORIES.iter().enumerate() {
        let mut r2 = rng.fork();
        match guard(|| val::realise(h, v, t, &mut r2)) {
            Ok(Ok(lv)) => out.push(Realised { hist: name, value: lv }),
            Ok(Err(e)) => return Err((format!("history-failed:{}", name), e)),
            Err(p) => return Err((format!("panic:{}", name), p)),
        }
    }
    if with_machine && t.width > 0 && t.width <= 2048 {
        let mut r2 = rng.fork();
        match guard(|| crate::machine_out::dirty_machine_output(v, t, &mut r2)) {
            Ok(Ok(lv)) => out.push(Realised { hist: "machine-output-dirty-frame", value: lv }),
            Ok(Err(e)) => return Err(("history-failed:machine-output".into(), e)),
            Err(p) => return Err(("panic:machine-output".into(), p)),
        }
    }
    // every history must at least denote the value (otherwise C10 is what failed, not C11)
    for r in &out {
        if let Err(e) = val::denotes(&r.value, v, t) {
            return Err((format!("layout:{}", r.hist), format!("{} : {} via {}: {}", val::show(v), t, r.hist, e)));
        }
    }
    Ok(out)
}

fn check_equal_group(g: &[Realised], v: &V, t: &T, case: &Case) -> Result<(), (String, String)> {
    for (i, a) in g.iter().enumerate() {
        for b in g.iter().skip(i) {
            let pair = format!("{} vs {}", a.hist, b.hist);
            if a.value != b.value || b.value != a.value {
                return Err((
                    format!("eq:{}|{}", a.hist, b.hist),
                    format!("the same value {} : {} produced via `{}` and via `{}` compares unequal\n  a = {:?}\n  b = {:?}", val::show(v), t, a.hist, b.hist, a.value, b.value),
                ));
            }
            if h64(&a.value) != h64(&b.value) {
                return Err((
                    format!("hash:{}|{}", a.hist, b.hist),
                    format!("equal values {} : {} ({}) hash differently", val::show(v), t, pair),
                ));
            }
            if a.value.cmp(&b.value) != Ordering::Equal || b.value.cmp(&a.value) != Ordering::Equal || a.value.partial_cmp(&b.value) != Some(Ordering::Equal) {
                return Err((
                    format!("cmp:{}|{}", a.hist, b.hist),
                    format!("equal values {} : {} ({}) do not compare Equal: {:?}", val::show(v), t, pair, a.value.cmp(&b.value)),
                ));
            }
            case.count("pairs.equal");
            // Word wrappers delegate
            if let (Some(wa), Some(wb)) = (a.value.to_word(), b.value.to_word()) {
                if wa != wb || h64(&wa) != h64(&wb) || wa.cmp(&wb) != Ordering::Equal {
                    return Err((
                        format!("word-eq:{}|{}", a.hist, b.hist),
                        format!("the same word {} produced via `{}` and `{}` differs as Word (eq {}, hash-eq {}, cmp {:?})", wa, a.hist, b.hist, wa == wb, h64(&wa) == h64(&wb), wa.cmp(&wb)),
                    ));
                }
                case.count("pairs.word");
            }
        }
    }
    Ok(())
}

fn different_value(rng: &mut Rng, v: &V, t: &T) -> Option<V> {
    for _ in 0..8 {
        let w = val::gen_val(rng, t);
        if w != *v {
            return Some(w);
        }
    }
    None
}

fn one_case(rng: &mut Rng, case: &mut Case, p: &TyParams, with_machine: bool) -> Outcome {
    let t = ty::gen_ty(rng, p);
    let v = val::gen_val(rng, &t);
    case.desc = format!("{} : {}", val::show(&v), t);
    case.hash = Some(hash_str(&case.desc));
    let g = match realise_all(&v, &t, rng, with_machine) {
        Ok(g) => g,
        Err((sig, d)) if sig.starts_with("layout:") || sig.starts_with("history-failed") => {
            // a C10-class failure; it is still a failure of "however each was produced"
            return violated(sig, d);
        }
        Err((sig, d)) => return violated(sig, d),
    };
    for r in &g {
        case.count(&format!("history.{}", r.hist));
    }
    if let Err((sig, d)) = check_equal_group(&g, &v, &t, case) {
        return violated(sig, d);
    }
    // different element of the same type: must differ under every pair of histories, order antisymmetric
    if let Some(w) = different_value(rng, &v, &t) {
        let g2 = match realise_all(&w, &t, rng, false) {
            Ok(g) => g,
            Err((sig, d)) => return violated(sig, d),
        };
        let mut first: Option<Ordering> = None;
        for a in &g {
            for b in &g2 {
                if a.value == b.value {
                    return violated(format!("neq:{}|{}", a.hist, b.hist), format!("different values {} and {} of type {} compare equal ({} vs {})", val::show(&v), val::show(&w), t, a.hist, b.hist));
                }
                let o = a.value.cmp(&b.value);
                let ro = b.value.cmp(&a.value);
                if o == Ordering::Equal || ro != o.reverse() {
                    return violated(format!("cmp-antisym:{}|{}", a.hist, b.hist), format!("cmp({} , {}) = {:?} but reversed {:?} (type {}, {} vs {})", val::show(&v), val::show(&w), o, ro, t, a.hist, b.hist));
                }
                match first {
                    None => first = Some(o),
                    Some(f) if f != o => {
                        return violated(format!("cmp-history-dependent:{}|{}", a.hist, b.hist), format!("the order of {} and {} (type {}) depends on how they were produced: {:?} vs {:?}", val::show(&v), val::show(&w), t, f, o));
                    }
                    _ => {}
                }
                case.count("pairs.different");
            }
        }
        // transitivity on a random third value
        if let Some(u) = different_value(rng, &w, &t) {
            if let Ok(g3) = realise_all(&u, &t, rng, false) {
                let a = &rng.pick(&g).value;
                let b = &rng.pick(&g2).value;
                let c = &rng.pick(&g3).value;
                let mut xs = [a, b, c];
                xs.sort();
                if !(xs[0] <= xs[1] && xs[1] <= xs[2] && xs[0] <= xs[2]) {
                    return violated("cmp-transitivity", format!("sorting three values of {} does not give a chain", t));
                }
                case.count("triples");
            }
        }
    }
    // same bits, different type: a value of a different type with an identical padded layout is a different value
    {
        let alt = ty::prod(ty::unit(), t.clone());
        let av = V::P(Box::new(V::Unit), Box::new(v.clone()));
        let mut tf = ty::ToFinal::new();
        let lv_alt = val::build_ctor(&av, &alt, &mut tf);
        for a in &g {
            if a.value == lv_alt {
                return violated("neq-type", format!("{} : {} equals the same bits at type {}", val::show(&v), t, alt));
            }
        }
        case.count("pairs.different-type");
    }
    // values of different types that share one buffer at one offset (a product and its first component; a value and
    // its product with unit): different types, so never equal, whatever the representation shares
    for a in &g {
        let mut others: Vec<(&'static str, simplicity::Value)> = Vec::new();
        others.push(("product(v, unit)", simplicity::Value::product(a.value.clone(), simplicity::Value::unit())));
        if let Some((l, _)) = a.value.as_product() {
            others.push(("first component of v", l.to_value()));
        }
        for (what, o) in others {
            if a.value == o || o == a.value {
                return violated(format!("neq-type-shared-buffer:{}", a.hist), format!("{} : {} (via `{}`) compares equal to its {} of type {}", val::show(&v), t, a.hist, what, o.ty()));
            }
            if a.value.cmp(&o) == Ordering::Equal || o.cmp(&a.value) == Ordering::Equal || a.value.cmp(&o) != o.cmp(&a.value).reverse() {
                return violated(format!("cmp-type-shared-buffer:{}", a.hist), format!("{} : {} (via `{}`) and its {} of type {}: cmp {:?} / {:?}", val::show(&v), t, a.hist, what, o.ty(), a.value.cmp(&o), o.cmp(&a.value)));
            }
            case.count("pairs.different-type-shared-buffer");
        }
    }
    if t.width == 0 {
        Outcome::Trivial
    } else {
        Outcome::Held
    }
}

pub fn run(ctx: &Ctx) {
    let t = ctx.tier;
    ctx.run_sub("history-pairs-small", Plan::sample(t.pick(160_000, 2_000_000), 0.4), |rng, case| one_case(rng, case, &TyParams::small(), true));
    ctx.run_sub("history-pairs-medium", Plan::sample(t.pick(24_000, 300_000), 0.3), |rng, case| one_case(rng, case, &TyParams::medium(), true));
    // every type with at most 3 (4) constructors, every value, all history pairs
    let tys = ty::all_types_up_to(t.pick(3, 4));
    ctx.run_sub("tiny-types-exhaustive", Plan::enumerate(tys.len() as u64, 0.2), |rng, case| {
        let ty_ = &tys[case.idx as usize];
        let vals = crate::c10::all_values(ty_);
        let mut groups = Vec::new();
        for v in &vals {
            match realise_all(v, ty_, rng, true) {
                Ok(g) => {
                    if let Err((sig, d)) = check_equal_group(&g, v, ty_, case) {
                        return violated(sig, d);
                    }
                    groups.push(g);
                }
                Err((sig, d)) => return violated(sig, d),
            }
        }
        for i in 0..groups.len() {
            for j in 0..groups.len() {
                if i == j {
                    continue;
                }
                for a in &groups[i] {
                    for b in &groups[j] {
                        if a.value == b.value || a.value.cmp(&b.value) == Ordering::Equal {
                            return violated(format!("neq:{}|{}", a.hist, b.hist), format!("different values {} and {} of type {} compare equal ({} vs {})", val::show(&vals[i]), val::show(&vals[j]), ty_, a.hist, b.hist));
                        }
                    }
                }
            }
        }
        case.desc = format!("type {}: all {} values x all history pairs", ty_, vals.len());
        case.hash = Some(ty_.ident());
        if ty_.width == 0 { Outcome::Trivial } else { Outcome::Held }
    });
}
