use vcore::ast::{self, Dag, Op};
use vcore::prog::{self, Root};
use simplicity::dag::{DagLike, InternalSharing};
use simplicity::jet::Core;
use simplicity::{BitIter, RedeemNode};
fn main() {
    let mut d = Dag::default();
    let mut e = [0u8; 64];
    e[0] = 0xa1;
    let f0 = d.push(Op::Fail(e));
    let u1 = d.push(Op::Unit);
    let w2 = d.push(Op::Word(0, vec![0x80]));
    let c3 = d.push(Op::Comp(u1, w2));
    let c4 = d.push(Op::Comp(f0, c3));
    let f5 = d.push(Op::Fail(e));
    let u6 = d.push(Op::Unit);
    let w7 = d.push(Op::Word(0, vec![0x80]));
    let c8 = d.push(Op::Comp(u6, w7));
    let c9 = d.push(Op::Comp(f5, c8));
    let u10 = d.push(Op::Unit);
    let c11 = d.push(Op::Comp(c9, u10));
    let c12 = d.push(Op::Comp(u1, c11));
    d.push(Op::Comp(c4, c12));
    let order = ast::natural_order(&d);
    let p = prog::build_redeem(&d, &order, &[], None, Root::Program).unwrap();
    let (pb, wb) = p.to_vec_with_witness();
    println!("bytes {:02x?}", pb);
    let p2 = RedeemNode::decode::<_, _, Core>(BitIter::from(&pb[..]), BitIter::from(&wb[..])).unwrap();
    for (name, r) in [("orig", &p), ("decoded", &p2)] {
        println!("--- {}", name);
        for x in r.as_ref().post_order_iter::<InternalSharing>() {
            println!("{:2} {:12} ({:?},{:?}) {} ihr {} amr {}", x.index, format!("{}", x.node.inner()), x.left_index, x.right_index, x.node.arrow(), x.node.ihr(), x.node.amr());
        }
    }
}
