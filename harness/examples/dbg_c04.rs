use vcore::ast::{self, Dag, Op};
use vcore::prog::{self, Root};
fn main() {
    let mut d = Dag::default();
    let i0 = d.push(Op::Iden);
    let d1 = d.push(Op::Disconnect(i0, None));
    let i2 = d.push(Op::Iden);
    let c3 = d.push(Op::Comp(i0, d1));
    let w4 = d.push(Op::Witness(None));
    let a5 = d.push(Op::AssertR([0x7e; 32], c3));
    let p6 = d.push(Op::Pair(i2, w4));
    let f7 = d.push(Op::Fail([0xb6; 64]));
    let d8 = d.push(Op::Disconnect(f7, Some(a5)));
    d.push(Op::Disconnect(p6, Some(d8)));
    for program in [false, true] {
        let order = ast::natural_order(&d);
        let r = prog::build_commit(&d, &order, None, if program { Root::Program } else { Root::Free });
        println!("program={} lib: {:?}", program, r.as_ref().map(|c| c.arrow().to_string()).map_err(|e| e.clone()));
        println!("model full: {:?}", ast::infer(&d, program, None).map(|t| format!("{} -> {}", t[9].0, t[9].1)).map_err(|e| format!("{:?}", e)));
    }
    // which node's finalisation complains?
    for target in [2usize, 4, 6, 7, 8, 9] {
        let r = simplicity::types::Context::with_context(|ctx| {
            let order = ast::natural_order(&d);
            let wits = vec![None; d.witness.len()];
            let inst = ast::instantiate(&d, &ctx, &order, &wits).map_err(|e| e.err.to_string())?;
            let n = inst.nodes[target].clone().unwrap();
            let arrow = format!("{}", n.arrow());
            n.finalize_types_non_program().map(|c| format!("ok {}", c.arrow())).map_err(|e| format!("{} (arrow before: {})", e, arrow))
        });
        println!("finalize node {}: {:?}", target, r);
    }
    // sub-DAG rooted at 3 alone
    let sub = d.reachable_from(3);
    println!("sub3 model: {:?}", ast::infer(&sub, false, None).is_ok());
}
#[allow(dead_code)]
fn unused() {}
